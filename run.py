#!/usr/bin/env python3
"""kevosim driver: scratch copy of /repo -> instrumentation -> build -> seeded workers -> verdict.

usage:  run.py <Cnn> quick|thorough        run a property's check
        run.py replay <file>               re-run a replay file in a fresh process
        run.py setup                       build tools, overlay, warm caches, self-test
        run.py build [--race]              build only, print binary path
Exit codes: 0 held; 1 VIOLATION (new); 2 infrastructure trouble; 3 replay diverged.
"""
import hashlib, json, os, shutil, subprocess, sys, tempfile, time, glob, signal

VERIF = os.path.dirname(os.path.abspath(__file__))
REPO = os.environ.get("KEVO_REPO", "/repo")
GOBIN = "/opt/veriftools/go1.26.8/bin/go"
BUILD = os.path.join(VERIF, "build")
CACHE = os.path.join(BUILD, "cache")
NCPU = int(os.environ.get("VERIF_WORKERS", "16"))

ENV = dict(os.environ)
ENV.update({
    "GOFLAGS": "-mod=mod", "GOPROXY": "off", "GOSUMDB": "off", "GOTOOLCHAIN": "local",
    "PATH": "/opt/veriftools/go1.26.8/bin:" + os.environ.get("PATH", ""),
    "CGO_ENABLED": os.environ.get("CGO_ENABLED", "1"),
})


def log(*a):
    print("[run.py]", *a, file=sys.stderr, flush=True)


def infra(msg):
    print("INFRA-ERROR:", msg, flush=True)
    sys.exit(2)


def sh(cmd, cwd=None, env=None, check=True, capture=False):
    r = subprocess.run(cmd, cwd=cwd, env=env or ENV, stdout=subprocess.PIPE if capture else None,
                       stderr=subprocess.STDOUT if capture else None, text=True)
    if check and r.returncode != 0:
        if capture:
            sys.stderr.write(r.stdout[-8000:])
        infra("command failed: %s" % " ".join(cmd))
    return r


def scratch_root():
    for base in ("/dev/shm", os.environ.get("TMPDIR", "/tmp")):
        if os.path.isdir(base) and os.access(base, os.W_OK):
            return base
    return "/tmp"


def tree_files():
    """Files of /repo's working tree that go into the scratch module."""
    out = []
    for top in ("pkg", "proto"):
        for d, _, fs in os.walk(os.path.join(REPO, top)):
            for f in fs:
                if f.endswith("_test.go"):
                    continue
                out.append(os.path.join(d, f))
    out += [os.path.join(REPO, "go.mod"), os.path.join(REPO, "go.sum")]
    return sorted(out)


def sim_files():
    out = []
    for top in ("sim", "tools", "sim_access"):
        for d, _, fs in os.walk(os.path.join(VERIF, top)):
            for f in fs:
                out.append(os.path.join(d, f))
    return sorted(out)


def digest(paths, extra=""):
    h = hashlib.sha256()
    h.update(extra.encode())
    for p in paths:
        h.update(p.encode())
        with open(p, "rb") as f:
            h.update(f.read())
    return h.hexdigest()[:24]


def ensure_tools():
    os.makedirs(BUILD, exist_ok=True)
    # overlay
    sh([sys.executable, os.path.join(VERIF, "tools/overlay/gen_overlay.py"), os.path.join(BUILD, "overlay")], capture=True)
    # rewriter
    rw = os.path.join(BUILD, "simrewrite")
    src = os.path.join(VERIF, "tools/simrewrite/main.go")
    stamp = rw + ".sha"
    d = digest([src])
    if not (os.path.exists(rw) and os.path.exists(stamp) and open(stamp).read() == d):
        tmpd = tempfile.mkdtemp(prefix="simrw.", dir=scratch_root())
        try:
            shutil.copy(src, os.path.join(tmpd, "main.go"))
            with open(os.path.join(tmpd, "go.mod"), "w") as f:
                f.write("module simrewrite\n\ngo 1.24\n")
            sh([GOBIN, "build", "-o", rw, "."], cwd=tmpd, capture=True)
        finally:
            shutil.rmtree(tmpd, ignore_errors=True)
        open(stamp, "w").write(d)
    return rw


def add_norace(path):
    """Add //go:norace to every FuncDecl of a simulator source file (textual)."""
    out = []
    for line in open(path).read().split("\n"):
        if line.startswith("func "):
            out.append("//go:norace")
        out.append(line)
    open(path, "w").write("\n".join(out))


def build(race=False):
    """Build the check binary from /repo's current working tree. Returns its path."""
    rw = ensure_tools()
    key = digest(tree_files() + sim_files(), "race=%s" % race)
    os.makedirs(CACHE, exist_ok=True)
    binp = os.path.join(CACHE, "checks-%s%s.test" % (key, "-race" if race else ""))
    if os.path.exists(binp):
        return binp
    t0 = time.time()
    root = tempfile.mkdtemp(prefix="kevosim.", dir=scratch_root())
    try:
        for top in ("pkg", "proto"):
            shutil.copytree(os.path.join(REPO, top), os.path.join(root, top),
                            ignore=shutil.ignore_patterns("*_test.go"))
        shutil.copy(os.path.join(REPO, "go.mod"), root)
        shutil.copy(os.path.join(REPO, "go.sum"), root)
        # instrument
        r = sh([rw, root], capture=True)
        log(r.stdout.strip())
        # simulator packages
        z = os.path.join(root, "zsim")
        shutil.copytree(os.path.join(VERIF, "sim"), z)
        # quiet variants for pkg/stats
        for name in ("simsync", "simatomic"):
            qd = os.path.join(z, name + "q")
            shutil.copytree(os.path.join(z, name), qd)
            for f in os.listdir(qd):
                p = os.path.join(qd, f)
                s = open(p).read()
                s = s.replace("package " + name, "package " + name + "q")
                s = s.replace("simrt.CLock", "simrt.CQLock").replace("simrt.CUnlock", "simrt.CQUnlock").replace("simrt.CAtomic", "simrt.CQAtomic")
                open(p, "w").write(s)
        for name in ("simrt", "simsync", "simatomic", "simsyncq", "simatomicq", "simos", "simfp", "simnet", "simrand"):
            d = os.path.join(z, name)
            if os.path.isdir(d):
                for f in os.listdir(d):
                    if f.endswith(".go"):
                        add_norace(os.path.join(d, f))
        # in-package accessor files
        acc = os.path.join(VERIF, "sim_access")
        if os.path.isdir(acc):
            for d, _, fs in os.walk(acc):
                for f in fs:
                    rel = os.path.relpath(os.path.join(d, f), acc)
                    dst = os.path.join(root, rel)
                    os.makedirs(os.path.dirname(dst), exist_ok=True)
                    shutil.copy(os.path.join(d, f), dst)
        # extra requirements
        with open(os.path.join(root, "go.mod"), "a") as f:
            f.write("\nrequire github.com/anishathalye/porcupine v1.3.0\n")
        sumextra = os.path.join(VERIF, "tools/go.sum.extra")
        if os.path.exists(sumextra):
            with open(os.path.join(root, "go.sum"), "a") as f:
                f.write(open(sumextra).read())
        cmd = [GOBIN, "test", "-c", "-trimpath", "-tags", "verif", "-overlay", os.path.join(BUILD, "overlay/overlay.json"),
               "-o", binp + ".tmp"]
        if race:
            cmd.append("-race")
        cmd.append("./zsim/checks")
        r = sh(cmd, cwd=root, capture=True, check=False)
        if r.returncode != 0:
            sys.stderr.write(r.stdout[-12000:])
            if os.environ.get("KEEP_SCRATCH"):
                log("scratch kept at", root)
                root = None
            infra("build of the instrumented tree failed")
        os.replace(binp + ".tmp", binp)
        log("built %s in %.1fs" % (os.path.basename(binp), time.time() - t0))
    finally:
        if root and not os.environ.get("KEEP_SCRATCH"):
            shutil.rmtree(root, ignore_errors=True)
        elif root:
            log("scratch kept at", root)
    # prune old cache entries
    ents = sorted(glob.glob(os.path.join(CACHE, "checks-*.test")), key=os.path.getmtime)
    for old in ents[:-6]:
        try:
            os.remove(old)
        except OSError:
            pass
    return binp


TIERS = {
    # per-property wall budgets in seconds: (quick, thorough)
    "default": (45, 600),
}

RACE_CHECKS = {"C07"}
RACE_MIX = {"C15", "C14"}


def known_path():
    return os.path.join(VERIF, "known_findings.json")


def load_manifest_checks():
    try:
        m = json.load(open(os.path.join(VERIF, "MANIFEST.json")))
        return {c["property_id"]: c for c in m.get("checks", [])}
    except Exception:
        return {}


LEVELS = {}


def run_check(prop, tier, seed):
    t0 = time.time()
    race = prop in RACE_CHECKS
    binp = build(race=race)
    # some checks give every fourth worker a -race binary (reports between kevo's own accesses only)
    race_binp = build(race=True) if prop in RACE_MIX else None
    budget = TIERS.get(prop, TIERS["default"])[0 if tier == "quick" else 1]
    budget = int(os.environ.get("VERIF_BUDGET_S", budget))
    outdir = tempfile.mkdtemp(prefix="kevosim-out.", dir=scratch_root())
    replaydir = os.environ.get("VERIF_REPLAYDIR") or os.path.join(VERIF, "replays")
    os.makedirs(replaydir, exist_ok=True)
    for old in glob.glob(os.path.join(replaydir, prop + "-*.json")):
        os.remove(old)  # replays of earlier runs of this check are stale
    procs = []
    nworkers = NCPU
    try:
        for w in range(nworkers):
            env = dict(ENV)
            env.update({
                "KEVOSIM_CHECK": prop, "KEVOSIM_TIER": tier, "KEVOSIM_SEED": str(seed),
                "KEVOSIM_WORKER": str(w), "KEVOSIM_NWORKERS": str(nworkers),
                "KEVOSIM_BUDGET_S": str(budget), "KEVOSIM_OUT": os.path.join(outdir, "w%d.json" % w),
                "KEVOSIM_REPLAYDIR": replaydir, "KEVOSIM_KNOWN": known_path(),
                "GOMAXPROCS": "2",
                # every report is wanted (a confirming re-execution must see the race again)
                "GORACE": "halt_on_error=0 suppress_equal_stacks=0 suppress_equal_addresses=0 log_path=%s" % os.path.join(outdir, "race.w%d" % w),
            })
            if os.environ.get("KEVOSIM_MAXCASES"):
                env["KEVOSIM_MAXCASES"] = os.environ["KEVOSIM_MAXCASES"]
            logf = open(os.path.join(outdir, "w%d.log" % w), "wb")
            use = binp
            if race_binp and w % 4 == 3:
                use = race_binp
                env["GORACE"] = "halt_on_error=0 log_path=%s" % os.path.join(outdir, "race.w%d" % w)
            cmd = [use, "-test.run", "^Test%s$" % prop, "-test.timeout", "%ds" % (budget * 4 + 600), "-test.cpu", "1"]
            p = subprocess.Popen(cmd, env=env, stdout=subprocess.DEVNULL, stderr=logf, cwd=outdir,
                                 preexec_fn=lambda: __import__("resource").setrlimit(__import__("resource").RLIMIT_AS, (24 << 30, 24 << 30)))
            procs.append((w, p, logf))
        results, crashed = [], []
        for w, p, logf in procs:
            try:
                rc = p.wait(timeout=budget * 4 + 900)
            except subprocess.TimeoutExpired:
                p.kill()
                rc = -9
            logf.close()
            rp = os.path.join(outdir, "w%d.json" % w)
            if os.path.exists(rp):
                try:
                    results.append(json.load(open(rp)))
                except Exception as e:
                    crashed.append((w, rc, "bad result file: %s" % e))
            else:
                tail = open(os.path.join(outdir, "w%d.log" % w), "rb").read()[-3000:].decode("utf8", "replace")
                crashed.append((w, rc, tail))
        return finish(prop, tier, seed, results, crashed, outdir, time.time() - t0)
    finally:
        for _, p, _ in procs:
            if p.poll() is None:
                p.kill()
        shutil.rmtree(outdir, ignore_errors=True)


def finish(prop, tier, seed, results, crashed, outdir, wall):
    if crashed and not results:
        sys.stderr.write(crashed[0][2] + "\n")
        infra("all %d workers died without a result (rc=%s)" % (len(crashed), crashed[0][1]))
    agg = {"cases": 0, "evals": 0, "truncated": 0, "inconclusive": 0, "steps": 0, "sim_time_ns": 0}
    faults, probes, samples, viol, detmis = {}, {}, [], {}, []
    hashes = set()
    rule = ""
    for r in results:
        for k in agg:
            agg[k] += r.get(k, 0)
        for k, v in (r.get("faults") or {}).items():
            faults[k] = faults.get(k, 0) + v
        for k, v in (r.get("probes") or {}).items():
            probes[k] = probes.get(k, 0) + v
        samples += (r.get("samples") or [])[:1]
        detmis += r.get("determinism_mismatch") or []
        rule = r.get("rule") or rule
        hf = r.get("hash_file")
        if hf and os.path.exists(hf):
            hashes.update(open(hf).read().split())
        for v in r.get("violations") or []:
            cur = viol.get(v["signature"])
            if cur is None:
                viol[v["signature"]] = v
            else:
                cur["count"] += v["count"]
                if not cur.get("replay") and v.get("replay"):
                    cur["replay"] = v["replay"]
    if crashed:
        for w, rc, tailtxt in crashed:
            log("worker %d died rc=%s: %s" % (w, rc, tailtxt[-600:]))
    new = [v for v in viol.values() if not v.get("known")]
    knownv = [v for v in viol.values() if v.get("known")]
    level = LEVELS.get(prop, "exploration")
    mc = load_manifest_checks().get(prop)
    if mc:
        level = mc["level_claimed"]["category"]
    ev = {
        "property_id": prop, "tier": tier, "seed": seed, "level": level,
        "coverage": {
            "evaluations": agg["evals"], "cases": agg["cases"], "distinct_nontrivial": len(hashes), "rule": rule,
            "samples": samples[:4], "steps": agg["steps"], "sim_time_s": agg["sim_time_ns"] / 1e9,
            "runs_per_hour": int(agg["cases"] / max(wall, 1e-9) * 3600), "seeds": agg["cases"],
            "faults_fired": faults, "probes": probes, "truncated_runs": agg["truncated"], "inconclusive": agg["inconclusive"],
            "workers": len(results), "workers_died": len(crashed),
            "known_findings_hit": {v["signature"]: v["count"] for v in knownv},
            "real_components": REAL, "stubbed_components": STUB,
        },
        "assumptions": ASSUME,
        "wall_s": round(wall, 2), "violations": len(new),
    }
    evdir = os.environ.get("VERIF_EVIDENCEDIR") or os.path.join(VERIF, "evidence")
    os.makedirs(evdir, exist_ok=True)
    with open(os.path.join(evdir, prop + ".json"), "w") as f:
        json.dump(ev, f, indent=1)
    zero = [k for k, v in probes.items() if v == 0]
    print("%s %s seed=%d: %d cases, %d evaluations, %d distinct non-trivial, %.0fs wall, %.1f sim-hours, probes=%s faults=%s" % (
        prop, tier, seed, agg["cases"], agg["evals"], len(hashes), wall, agg["sim_time_ns"] / 3.6e12, json.dumps(probes), json.dumps(faults)))
    if detmis:
        for d in detmis[:5]:
            print("NONDETERMINISM:", d)
        infra("determinism self-check failed (%d mismatches)" % len(detmis))
    for v in knownv:
        print("KNOWN-FINDING: property=%s %s [%s] (hit %d times)" % (prop, v.get("what") or v["kind"], v["signature"], v["count"]))
    if crashed and len(crashed) > len(results):
        infra("%d of %d workers died" % (len(crashed), len(crashed) + len(results)))
    if new:
        for v in new:
            print("VIOLATION property=%s replay=%s" % (prop, v.get("replay") or "none"))
            print("  signature: %s (x%d)" % (v["signature"], v["count"]))
            print("  detail: " + v["detail"][:1500].replace("\n", "\n    "))
        sys.exit(1)
    if len(hashes) < 2:
        infra("fewer than 2 distinct non-trivial cases explored")
    sys.exit(0)


REAL = ["pkg/wal", "pkg/memtable", "pkg/sstable (+block, footer, bloom_filter)", "pkg/engine (facade, storage manager, iterators)",
        "pkg/compaction", "pkg/transaction", "pkg/config", "pkg/stats", "pkg/replication (Manager, Primary, Replica, heartbeat monitor, batching, compression, serialization, EngineApplier)", "pkg/grpc/service handlers"]
STUB = ["OS files (simos in-memory disk)", "goroutine scheduling choice (simrt baton scheduler)", "clock (testing/synctest fake clock)",
        "select/map/math-rand randomness (seeded runtime overlay)", "gRPC/HTTP2/TCP transport (simnet); net.Listen and the default dialing connector of pkg/replication (seams substituted in the scratch copy)"]
ASSUME = ["instrumentation by source rewriting preserves kevo's logic (imports, go statements, channel operations only)",
          "go1.26.8 testing/synctest and the 4-file runtime overlay behave as documented",
          "crash model PROC: bytes handed to the OS survive process death; POWER-DATA where stated"]


def replay(path):
    rf = json.load(open(path))
    prop = rf["property"]
    binp = build(race=prop in RACE_CHECKS or ((rf.get("violation") or {}).get("kind") == "data-race"))
    outdir = tempfile.mkdtemp(prefix="kevosim-out.", dir=scratch_root())
    try:
        env = dict(ENV)
        outp = os.path.join(outdir, "replay.json")
        env.update({"KEVOSIM_CHECK": prop, "KEVOSIM_REPLAY": os.path.abspath(path), "KEVOSIM_OUT": outp, "GOMAXPROCS": "2",
                    "GORACE": "halt_on_error=0 suppress_equal_stacks=0 suppress_equal_addresses=0 log_path=%s" % os.path.join(outdir, "race.replay")})
        with open(os.path.join(outdir, "log"), "wb") as logf:
            subprocess.run([binp, "-test.run", "^Test%s$" % prop, "-test.timeout", "30m", "-test.cpu", "1"], env=env,
                           stdout=subprocess.DEVNULL, stderr=logf, cwd=outdir)
        if not os.path.exists(outp):
            sys.stderr.write(open(os.path.join(outdir, "log"), "rb").read()[-3000:].decode("utf8", "replace"))
            infra("replay produced no result")
        r = json.load(open(outp))
        exp, got = r.get("expected"), r.get("got")
        if "-v" in sys.argv:
            print("\n".join(r.get("trace") or []))
        if got and exp and got["signature"] == exp["signature"]:
            print("VIOLATION property=%s replay=%s" % (prop, path))
            print("  signature: " + got["signature"])
            print("  detail: " + got["detail"][:3000])
            if r["sched_hash_expected"] != r["sched_hash_got"]:
                print("  note: schedule hash differs from the recorded one (%s vs %s) - tree changed?" % (r["sched_hash_expected"], r["sched_hash_got"]))
            sys.exit(1)
        if got:
            print("REPLAY-DIVERGED: different violation: %s" % got["signature"])
            print("  detail: " + got["detail"][:2000])
            sys.exit(3)
        print("REPLAY-CLEAN: the recorded violation does not occur on this tree (%s)" % exp["signature"])
        sys.exit(0)
    finally:
        shutil.rmtree(outdir, ignore_errors=True)


def main():
    if len(sys.argv) < 2:
        print(__doc__)
        sys.exit(2)
    cmd = sys.argv[1]
    if cmd == "build":
        print(build(race="--race" in sys.argv))
        return
    if cmd == "replay":
        replay(sys.argv[2])
        return
    if cmd == "setup":
        ensure_tools()
        build(race=False)
        print("setup ok")
        return
    tier = sys.argv[2] if len(sys.argv) > 2 else os.environ.get("VERIF_TIER", "quick")
    seed = int(os.environ.get("VERIF_SEED", "1"))
    run_check(cmd, tier, seed)


if __name__ == "__main__":
    main()
