#!/usr/bin/env python3
"""kevosim driver: scratch copy of /repo -> instrumentation -> build -> seeded workers -> verdict.

usage:  run.py <Cnn> quick|thorough        run a property's check
        run.py replay <file>               re-run a replay file in a fresh process
        run.py setup                       build tools, overlay, warm caches, self-test
        run.py build [--race]              build only, print binary path
Exit codes: 0 held; 1 VIOLATION (new); 2 infrastructure trouble; 3 replay diverged.
"""
import hashlib, json, os, shutil, subprocess, sys, tempfile, time, glob, signal

VERIF = os.path.dirname(os.path.abspath(__file__))
REPO = os.environ.get("KEVO_REPO", "/repo")
GOBIN = "/opt/veriftools/go1.26.8/bin/go"
BUILD = os.path.join(VERIF, "build")
CACHE = os.path.join(BUILD, "cache")
NCPU = int(os.environ.get("VERIF_WORKERS", "16"))

ENV = dict(os.environ)
ENV.update({
    "GOFLAGS": "-mod=mod", "GOPROXY": "off", "GOSUMDB": "off", "GOTOOLCHAIN": "local",
    "PATH": "/opt/veriftools/go1.26.8/bin:" + os.environ.get("PATH", ""),
    "CGO_ENABLED": os.environ.get("CGO_ENABLED", "1"),
})


def log(*a):
    print("[run.py]", *a, file=sys.stderr, flush=True)


def infra(msg):
    print("INFRA-ERROR:", msg, flush=True)
    sys.exit(2)


def sh(cmd, cwd=None, env=None, check=True, capture=False):
    r = subprocess.run(cmd, cwd=cwd, env=env or ENV, stdout=subprocess.PIPE if capture else None,
                       stderr=subprocess.STDOUT if capture else None, text=True)
    if check and r.returncode != 0:
        if capture:
            sys.stderr.write(r.stdout[-8000:])
        infra("command failed: %s" % " ".join(cmd))
    return r


def scratch_root():
    for base in ("/dev/shm", os.environ.get("TMPDIR", "/tmp")):
        if os.path.isdir(base) and os.access(base, os.W_OK):
            return base
    return "/tmp"


def tree_files():
    """Files of /repo's working tree that go into the scratch module."""
    out = []
    for top in ("pkg", "proto"):
        for d, _, fs in os.walk(os.path.join(REPO, top)):
            for f in fs:
                if f.endswith("_test.go"):
                    continue
                out.append(os.path.join(d, f))
    out += [os.path.join(REPO, "go.mod"), os.path.join(REPO, "go.sum")]
    return sorted(out)


def sim_files():
    out = []
    for top in ("sim", "tools"):
        for d, _, fs in os.walk(os.path.join(VERIF, top)):
            for f in fs:
                out.append(os.path.join(d, f))
    return sorted(out)


def digest(paths, extra=""):
    h = hashlib.sha256()
    h.update(extra.encode())
    for p in paths:
        h.update(p.encode())
        with open(p, "rb") as f:
            h.update(f.read())
    return h.hexdigest()[:24]


def ensure_tools():
    os.makedirs(BUILD, exist_ok=True)
    # overlay
    sh([sys.executable, os.path.join(VERIF, "tools/overlay/gen_overlay.py"), os.path.join(BUILD, "overlay")], capture=True)
    # rewriter
    rw = os.path.join(BUILD, "simrewrite")
    src = os.path.join(VERIF, "tools/simrewrite/main.go")
    stamp = rw + ".sha"
    d = digest([src])
    if not (os.path.exists(rw) and os.path.exists(stamp) and open(stamp).read() == d):
        tmpd = tempfile.mkdtemp(prefix="simrw.", dir=scratch_root())
        try:
            shutil.copy(src, os.path.join(tmpd, "main.go"))
            with open(os.path.join(tmpd, "go.mod"), "w") as f:
                f.write("module simrewrite\n\ngo 1.24\n")
            sh([GOBIN, "build", "-o", rw, "."], cwd=tmpd, capture=True)
        finally:
            shutil.rmtree(tmpd, ignore_errors=True)
        open(stamp, "w").write(d)
    return rw


def add_norace(path):
    """Add //go:norace to every FuncDecl of a simulator source file (textual)."""
    out = []
    for line in open(path).read().split("\n"):
        if line.startswith("func "):
            out.append("//go:norace")
        out.append(line)
    open(path, "w").write("\n".join(out))


def build(race=False):
    """Build the check binary from /repo's current working tree. Returns its path."""
    rw = ensure_tools()
    key = digest(tree_files() + sim_files(), "race=%s" % race)
    os.makedirs(CACHE, exist_ok=True)
    binp = os.path.join(CACHE, "checks-%s%s.test" % (key, "-race" if race else ""))
    if os.path.exists(binp):
        return binp
    t0 = time.time()
    root = tempfile.mkdtemp(prefix="kevosim.", dir=scratch_root())
    try:
        for top in ("pkg", "proto"):
            shutil.copytree(os.path.join(REPO, top), os.path.join(root, top),
                            ignore=shutil.ignore_patterns("*_test.go"))
        shutil.copy(os.path.join(REPO, "go.mod"), root)
        shutil.copy(os.path.join(REPO, "go.sum"), root)
        # instrument
        r = sh([rw, root], capture=True)
        log(r.stdout.strip())
        # simulator packages
        z = os.path.join(root, "zsim")
        shutil.copytree(os.path.join(VERIF, "sim"), z)
        # quiet variants for pkg/stats
        for name in ("simsync", "simatomic"):
            qd = os.path.join(z, name + "q")
            shutil.copytree(os.path.join(z, name), qd)
            for f in os.listdir(qd):
                p = os.path.join(qd, f)
                s = open(p).read()
                s = s.replace("package " + name, "package " + name + "q")
                s = s.replace("simrt.CLock", "simrt.CQLock").replace("simrt.CUnlock", "simrt.CQUnlock").replace("simrt.CAtomic", "simrt.CQAtomic")
                open(p, "w").write(s)
        for name in ("simrt", "simsync", "simatomic", "simsyncq", "simatomicq", "simos", "simfp", "simnet"):
            d = os.path.join(z, name)
            if os.path.isdir(d):
                for f in os.listdir(d):
                    if f.endswith(".go"):
                        add_norace(os.path.join(d, f))
        # in-package accessor files
        acc = os.path.join(VERIF, "sim_access")
        if os.path.isdir(acc):
            for d, _, fs in os.walk(acc):
                for f in fs:
                    rel = os.path.relpath(os.path.join(d, f), acc)
                    dst = os.path.join(root, rel)
                    os.makedirs(os.path.dirname(dst), exist_ok=True)
                    shutil.copy(os.path.join(d, f), dst)
        # extra requirements
        with open(os.path.join(root, "go.mod"), "a") as f:
            f.write("\nrequire github.com/anishathalye/porcupine v1.3.0\n")
        sumextra = os.path.join(VERIF, "tools/go.sum.extra")
        if os.path.exists(sumextra):
            with open(os.path.join(root, "go.sum"), "a") as f:
                f.write(open(sumextra).read())
        cmd = [GOBIN, "test", "-c", "-trimpath", "-tags", "verif", "-overlay", os.path.join(BUILD, "overlay/overlay.json"),
               "-o", binp + ".tmp"]
        if race:
            cmd.append("-race")
        cmd.append("./zsim/checks")
        r = sh(cmd, cwd=root, capture=True, check=False)
        if r.returncode != 0:
            sys.stderr.write(r.stdout[-12000:])
            if os.environ.get("KEEP_SCRATCH"):
                log("scratch kept at", root)
                root = None
            infra("build of the instrumented tree failed")
        os.replace(binp + ".tmp", binp)
        log("built %s in %.1fs" % (os.path.basename(binp), time.time() - t0))
    finally:
        if root and not os.environ.get("KEEP_SCRATCH"):
            shutil.rmtree(root, ignore_errors=True)
        elif root:
            log("scratch kept at", root)
    # prune old cache entries
    ents = sorted(glob.glob(os.path.join(CACHE, "checks-*.test")), key=os.path.getmtime)
    for old in ents[:-6]:
        try:
            os.remove(old)
        except OSError:
            pass
    return binp


def main():
    if len(sys.argv) < 2:
        print(__doc__)
        sys.exit(2)
    cmd = sys.argv[1]
    if cmd == "build":
        print(build(race="--race" in sys.argv))
        return
    infra("not implemented yet: " + cmd)


if __name__ == "__main__":
    main()
