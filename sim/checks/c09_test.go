package checks

import (
	"bytes"
	"fmt"
	"testing"

	"github.com/KevoDB/kevo/pkg/config"
	"github.com/KevoDB/kevo/pkg/wal"
	"github.com/KevoDB/kevo/zsim/kit"
	"github.com/KevoDB/kevo/zsim/simrt"
)

// C09 — the write-ahead log replays exactly what was appended, in order.
// The wal package is driven directly on the simulated disk (short reads on):
// programmes of Append / AppendBatch / Sync / rotate / reopen with key and
// value lengths around 0, 1, the 32 KB fragment edge, multi-fragment keys and
// batches beyond the 64 KB buffer. Oracle: a single-copy log.

type WalOp struct {
	K    string  `json:"k"` // put del batch sync rotate reopen
	KLen int     `json:"klen,omitempty"`
	VLen int     `json:"vlen,omitempty"`
	Tag  uint32  `json:"tag,omitempty"`
	Sub  []WalOp `json:"sub,omitempty"`
}

type WalCase struct {
	Sched     kit.Sched `json:"sched"`
	SyncMode  int       `json:"sync_mode"`
	SyncBytes int64     `json:"sync_bytes"`
	ShortRead float64   `json:"short_read"`
	Ops       []WalOp   `json:"ops"`
}

type logEntry struct {
	seq  uint64
	typ  uint8
	key  []byte
	val  []byte
	step int
}

func walKey(tag uint32, n int) []byte {
	k := make([]byte, n)
	h := fmt.Sprintf("K%05d/", tag)
	copy(k, h)
	for i := len(h); i < n; i++ {
		k[i] = byte(i*7 + int(tag))
	}
	return k
}

func genWalLen(r *kit.Rand, overhead int) (klen, vlen int) {
	// entry size = overhead + klen + vlen; aim at interesting totals
	klen = kit.PickOf(r, 0, 1, 3, 8, 40, 300)
	switch r.Pick(30, 6, 10, 4, 3, 2, 5) {
	case 6: // what follows the first fragment fills whole records exactly (or misses by one)
		if r.Bool(0.3) {
			klen = kit.PickOf(r, 33000, 40000)
		}
		over := klen - 32755
		if over < 0 {
			over = 0
		}
		vlen = r.Range(1, 3)*32768 - 4 - over + r.Range(-1, 1)
	case 0:
		vlen = r.Range(0, 60)
	case 1:
		vlen = r.Range(500, 5000)
	case 2: // around the single-record limit
		vlen = 32768 - overhead - klen + r.Range(-3, 3)
	case 3: // two or three fragments
		vlen = kit.PickOf(r, 40000, 65536-overhead-klen, 65536, 70000, 98304+5)
	case 4: // key spanning fragments
		klen = kit.PickOf(r, 32755, 32756, 33000, 66000)
		vlen = r.Range(0, 20)
	case 5:
		vlen = 0
	}
	if vlen < 0 {
		vlen = 0
	}
	return
}

func genWalCase(r *kit.Rand, tier string) WalCase {
	c := WalCase{Sched: kit.GenSched(r, "seq"), SyncMode: r.Pick(1, 1, 1), SyncBytes: kit.PickOf(r, int64(64), 4096, 1<<20), ShortRead: kit.PickOf(r, 0.0, 0.2, 0.6)}
	var tag uint32
	n := r.Range(1, 25)
	if tier == "thorough" {
		n = r.Range(1, 60)
	}
	for len(c.Ops) < n {
		tag++
		switch r.Pick(40, 12, 12, 5, 8, 8) {
		case 0:
			k, v := genWalLen(r, 17)
			c.Ops = append(c.Ops, WalOp{K: "put", KLen: k, VLen: v, Tag: tag})
		case 1:
			k, _ := genWalLen(r, 13)
			if r.Bool(0.1) {
				k = kit.PickOf(r, 32755, 32756, 40000)
			}
			c.Ops = append(c.Ops, WalOp{K: "del", KLen: k, Tag: tag})
		case 2:
			b := WalOp{K: "batch"}
			m := r.Range(1, 6)
			big := r.Bool(0.2)
			for j := 0; j < m; j++ {
				tag++
				if r.Bool(0.75) {
					k, v := genWalLen(r, 17)
					if k+v+17 > 32768 {
						v = 32768 - 17 - k - r.Intn(3)
						if v < 0 {
							k, v = 8, 32768-17-8
						}
					}
					if big {
						v = 32768 - 17 - k - r.Intn(200)
					}
					b.Sub = append(b.Sub, WalOp{K: "put", KLen: k, VLen: v, Tag: tag})
				} else {
					b.Sub = append(b.Sub, WalOp{K: "del", KLen: kit.PickOf(r, 0, 1, 8, 300), Tag: tag})
				}
			}
			c.Ops = append(c.Ops, b)
		case 3:
			c.Ops = append(c.Ops, WalOp{K: "sync"})
		case 4:
			c.Ops = append(c.Ops, WalOp{K: "rotate"})
		case 5:
			c.Ops = append(c.Ops, WalOp{K: "reopen"})
		}
	}
	return c
}

func sameEntry(e *wal.Entry, m logEntry) string {
	if e.SequenceNumber != m.seq {
		return fmt.Sprintf("sequence %d, appended %d", e.SequenceNumber, m.seq)
	}
	if e.Type != m.typ {
		return fmt.Sprintf("type %d, appended %d", e.Type, m.typ)
	}
	if !bytes.Equal(e.Key, m.key) {
		return fmt.Sprintf("key %s, appended %s", kit.Q(e.Key), kit.Q(m.key))
	}
	if m.typ == wal.OpTypeDelete {
		if len(e.Value) != 0 {
			return fmt.Sprintf("delete carries a value %s", kit.Q(e.Value))
		}
		return ""
	}
	if !bytes.Equal(e.Value, m.val) {
		return fmt.Sprintf("value %s, appended %s", kit.Q(e.Value), kit.Q(m.val))
	}
	return ""
}

func compareLog(got []*wal.Entry, want []logEntry, what string) *kit.Violation {
	for i := 0; i < len(got) && i < len(want); i++ {
		if d := sameEntry(got[i], want[i]); d != "" {
			return &kit.Violation{Kind: "log-mismatch", Signature: "log-mismatch:" + what, Detail: fmt.Sprintf("%s: entry %d (of %d appended): %s", what, i, len(want), d)}
		}
	}
	if len(got) < len(want) {
		m := want[len(got)]
		return &kit.Violation{Kind: "log-mismatch", Signature: "log-entries-missing:" + what, Detail: fmt.Sprintf("%s: %d entries delivered, %d appended; first missing: seq %d type %d key %s (%d-byte value)", what, len(got), len(want), m.seq, m.typ, kit.Q(m.key), len(m.val))}
	}
	if len(got) > len(want) {
		e := got[len(want)]
		return &kit.Violation{Kind: "log-mismatch", Signature: "log-entries-extra:" + what, Detail: fmt.Sprintf("%s: %d entries delivered, %d appended; first extra: seq %d type %d key %s", what, len(got), len(want), e.SequenceNumber, e.Type, kit.Q(e.Key))}
	}
	return nil
}

func runC09(t *testing.T, c WalCase) *kit.Result {
	res := kit.NewResult()
	cfg := c.Sched.Config()
	cfg.Verbose = kit.Verbose
	var sim *simrt.Sim
	out := simrt.Run(t, cfg, func() {
		sim = simrt.S
		fs := kit.NewFS()
		kit.TagNode(fs, "n1")
		fs.Node("n1").ShortRead = c.ShortRead
		dir := "/n1/wal"
		wcfg := config.NewDefaultConfig("/n1")
		wcfg.WALDir = dir
		wcfg.WALSyncMode = config.SyncMode(c.SyncMode)
		wcfg.WALSyncBytes = c.SyncBytes
		w, err := wal.NewWAL(wcfg, dir)
		if err != nil {
			res.V = &kit.Violation{Kind: "open-error", Signature: "wal-open-error", Detail: err.Error()}
			return
		}
		var log []logEntry
		var next uint64 = 1
		files, frag, bigBatch := 1, 0, 0
		fail := func(v *kit.Violation) {
			if res.V == nil {
				res.V = v
			}
		}
		verify := func(what string) {
			// whole-directory replay
			var got []*wal.Entry
			if _, err := wal.ReplayWALDir(dir, func(e *wal.Entry) error { got = append(got, e); return nil }); err != nil {
				fail(&kit.Violation{Kind: "replay-error", Signature: "replay-error", Detail: what + ": " + err.Error()})
				return
			}
			if v := compareLog(got, log, "replay "+what); v != nil {
				fail(v)
				return
			}
		}
		verifyFrom := func(what string) {
			starts := map[uint64]bool{0: true, 1: true, next - 1: true, next: true, next + 1: true}
			for _, e := range log {
				if len(starts) < 12 {
					starts[e.seq] = true
				}
			}
			if len(log) > 0 {
				starts[log[len(log)/2].seq] = true
			}
			for _, s := range kit.SortedKeys(func() map[string]bool {
				m := map[string]bool{}
				for k := range starts {
					m[fmt.Sprintf("%020d", k)] = true
				}
				return m
			}()) {
				var start uint64
				fmt.Sscanf(s, "%d", &start)
				got, err := w.GetEntriesFrom(start)
				if err != nil {
					fail(&kit.Violation{Kind: "read-from-error", Signature: "get-entries-from-error", Detail: fmt.Sprintf("%s: GetEntriesFrom(%d): %v", what, start, err)})
					return
				}
				var want []logEntry
				for _, e := range log {
					if e.seq >= start {
						want = append(want, e)
					}
				}
				if v := compareLog(got, want, "entries-from"); v != nil {
					v.Detail = fmt.Sprintf("%s: GetEntriesFrom(%d): %s", what, start, v.Detail)
					fail(v)
					return
				}
			}
		}
		for i, op := range c.Ops {
			if res.V != nil {
				break
			}
			simrt.Note("op %d %s k=%d v=%d", i, op.K, op.KLen, op.VLen)
			switch op.K {
			case "put", "del":
				typ := uint8(wal.OpTypePut)
				var val []byte
				key := walKey(op.Tag, op.KLen)
				if op.K == "del" {
					typ = wal.OpTypeDelete
				} else {
					val = kit.MakeValue(op.Tag, op.VLen)
				}
				size := 13 + len(key)
				if typ != wal.OpTypeDelete {
					size += 4 + len(val)
				}
				// the caller cut key and value out of one scratch buffer and reuses it afterwards
				ck, cv := kit.SharedBuffer(key, val)
				seq, err := w.Append(typ, ck, cv)
				for j := range ck[:cap(ck)] {
					ck[:cap(ck)][j] ^= 0x5a
				}
				if err != nil {
					fail(&kit.Violation{Kind: "append-error", Signature: "append-error:" + op.K, Detail: fmt.Sprintf("op %d append(%s key %d bytes, value %d bytes): %v", i, op.K, len(key), len(val), err)})
					break
				}
				if seq != next {
					fail(&kit.Violation{Kind: "append-sequence", Signature: "append-sequence", Detail: fmt.Sprintf("op %d: Append returned sequence %d, expected %d", i, seq, next)})
					break
				}
				if size > wal.MaxRecordSize {
					frag++
				}
				log = append(log, logEntry{seq: seq, typ: typ, key: key, val: val, step: i})
				next++
			case "batch":
				var ents []*wal.Entry
				total := 0
				for _, s := range op.Sub {
					key := walKey(s.Tag, s.KLen)
					if s.K == "del" {
						ents = append(ents, &wal.Entry{Type: wal.OpTypeDelete, Key: key})
					} else {
						ents = append(ents, &wal.Entry{Type: wal.OpTypePut, Key: key, Value: kit.MakeValue(s.Tag, s.VLen)})
					}
					total += 24 + s.KLen + s.VLen
				}
				given := make([]*wal.Entry, len(ents))
				for j, e := range ents {
					ck, cv := kit.SharedBuffer(e.Key, e.Value)
					given[j] = &wal.Entry{Type: e.Type, Key: ck, Value: cv}
				}
				seq, err := w.AppendBatch(given)
				for _, e := range given {
					for j := range e.Key[:cap(e.Key)] {
						e.Key[:cap(e.Key)][j] ^= 0x5a
					}
				}
				if err != nil {
					fail(&kit.Violation{Kind: "append-error", Signature: "append-error:batch", Detail: fmt.Sprintf("op %d AppendBatch(%d entries, ~%d bytes): %v", i, len(ents), total, err)})
					break
				}
				if seq != next {
					fail(&kit.Violation{Kind: "append-sequence", Signature: "append-sequence:batch", Detail: fmt.Sprintf("op %d: AppendBatch returned sequence %d, expected %d", i, seq, next)})
					break
				}
				if total > 64*1024 {
					bigBatch++
				}
				for _, e := range ents {
					log = append(log, logEntry{seq: seq, typ: e.Type, key: e.Key, val: e.Value, step: i})
				}
				next++
			case "sync":
				if err := w.Sync(); err != nil {
					fail(&kit.Violation{Kind: "sync-error", Signature: "sync-error", Detail: err.Error()})
				}
				verify("after sync")
			case "rotate":
				// as the storage manager does it: new file first, sequence handed over, old file closed
				w.SetRotating()
				nw, err := wal.NewWAL(wcfg, dir)
				if err != nil {
					fail(&kit.Violation{Kind: "open-error", Signature: "wal-open-error", Detail: err.Error()})
					break
				}
				nw.UpdateNextSequence(w.GetNextSequence())
				if err := w.Close(); err != nil {
					fail(&kit.Violation{Kind: "close-error", Signature: "wal-close-error", Detail: err.Error()})
					break
				}
				w = nw
				files++
				verify("after rotate")
			case "reopen":
				if err := w.Close(); err != nil {
					fail(&kit.Violation{Kind: "close-error", Signature: "wal-close-error", Detail: err.Error()})
					break
				}
				verify("after close")
				nw, err := wal.ReuseWAL(wcfg, dir, next)
				if err != nil {
					fail(&kit.Violation{Kind: "open-error", Signature: "wal-reuse-error", Detail: err.Error()})
					break
				}
				if nw == nil {
					nw, err = wal.NewWAL(wcfg, dir)
					if err != nil {
						fail(&kit.Violation{Kind: "open-error", Signature: "wal-open-error", Detail: err.Error()})
						break
					}
					nw.UpdateNextSequence(next)
					files++
				}
				w = nw
			}
		}
		if res.V == nil {
			verifyFrom("at end (log open)")
		}
		if res.V == nil {
			if err := w.Close(); err != nil {
				fail(&kit.Violation{Kind: "close-error", Signature: "wal-close-error", Detail: err.Error()})
			}
			verify("at end")
		}
		res.Probes["fragmented_entries"] += int64(frag)
		res.Probes["batches_over_64k"] += int64(bigBatch)
		res.Probes["log_files"] += int64(files)
		res.Fault("short_read", fs.Node("n1").Stats.ShortRead)
		res.Nontrivial = len(log) >= 2 && (frag > 0 || files > 1 || bigBatch > 0)
		res.Note = fmt.Sprintf("%d entries appended in %d files, %d fragmented, %d batches over 64KB", len(log), files, frag, bigBatch)
	})
	res.Absorb(out)
	if sim != nil && kit.Verbose {
		res.Trace = sim.TraceLines()
	}
	return res
}

func TestC09(t *testing.T) {
	kit.Main(t, kit.Spec[WalCase]{
		ID:  "C09",
		Gen: genWalCase,
		Run: runC09,
		Shrink: func(c WalCase) []WalCase {
			var out []WalCase
			n := len(c.Ops)
			for chunk := n / 2; chunk >= 1; chunk /= 2 {
				for i := 0; i+chunk <= n; i += chunk {
					d := c
					d.Ops = append(append([]WalOp(nil), c.Ops[:i]...), c.Ops[i+chunk:]...)
					out = append(out, d)
				}
				if chunk == 1 {
					break
				}
			}
			if c.ShortRead > 0 {
				d := c
				d.ShortRead = 0
				out = append(out, d)
			}
			for i, op := range c.Ops {
				if op.K == "batch" && len(op.Sub) > 1 {
					for j := range op.Sub {
						d := c
						d.Ops = append([]WalOp(nil), c.Ops...)
						d.Ops[i].Sub = append(append([]WalOp(nil), op.Sub[:j]...), op.Sub[j+1:]...)
						out = append(out, d)
					}
				}
			}
			return out
		},
		Strip: func(c WalCase) any { d := c; d.Sched = kit.Sched{}; return d },
		Rule:  "generated entry sequences through the real wal package on the simulated disk (this check is mostly input generation through an I/O surface with restart operations; the simulated parts are short reads, rotation and reopen): lengths around 0/1/the 32KB record limit/multi-fragment, batches beyond the 64KB buffer; ReplayWALDir after sync/rotate/close and GetEntriesFrom(s) for ~12 start sequences compared with a single-copy log; non-trivial = >=2 entries and (a fragmented entry or >1 file or a batch over 64KB)",
	})
}
