package checks

import (
	"fmt"
	"os"
	"testing"
	"time"

	"github.com/KevoDB/kevo/pkg/engine"
	"github.com/KevoDB/kevo/zsim/simos"
	"github.com/KevoDB/kevo/zsim/simrt"
)

func TestSmoke(t *testing.T) {
	if os.Getenv("KEVOSIM_SMOKE") == "" {
		t.Skip()
	}
	for seed := uint64(1); seed <= 3; seed++ {
		for rep := 0; rep < 2; rep++ {
			cfg := simrt.Config{Seed: seed, MaxVirtual: 10 * time.Minute}
			for i := range cfg.Density {
				cfg.Density[i] = 1
			}
			var got string
			out := simrt.Run(t, cfg, func() {
				fs := simos.NewFS()
				simos.Install(fs)
				simrt.SetTag("n1", fs.Node("n1").Gen)
				e, err := engine.NewEngineFacade("/n1/db")
				if err != nil {
					got = "open: " + err.Error()
					return
				}
				done := make(chan struct{}, 4)
				for c := 0; c < 3; c++ {
					c := c
					simrt.Go(func() {
						for i := 0; i < 20; i++ {
							k := []byte(fmt.Sprintf("k%d", (i+c)%5))
							if err := e.Put(k, []byte(fmt.Sprintf("v%d-%d", c, i))); err != nil {
								got += "put:" + err.Error()
							}
							e.Get(k)
						}
						simrt.Yield(simrt.CChan)
						done <- struct{}{}
						simrt.Reacquire()
					})
				}
				for c := 0; c < 3; c++ {
					simrt.Yield(simrt.CChan)
					<-done
					simrt.Reacquire()
				}
				v, err := e.Get([]byte("k1"))
				got += fmt.Sprintf(" k1=%s err=%v", v, err)
				e.Close()
			})
			fmt.Printf("seed=%d rep=%d steps=%d vt=%s hash=%x leaked=%d tasks=%d dl=%v hang=%v panic=%q got=%s\n", seed, rep, out.Steps, time.Duration(out.VirtualNs), out.TraceHash, out.Leaked, out.Tasks, out.Deadlock, out.Hang, out.Panic, got)
		}
	}
}
