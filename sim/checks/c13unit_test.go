package checks

import (
	"context"
	"fmt"
	"testing"

	"github.com/KevoDB/kevo/pkg/replication"
	"github.com/KevoDB/kevo/pkg/wal"
	pb "github.com/KevoDB/kevo/proto/kevo/replication"
	"github.com/KevoDB/kevo/zsim/kit"
	"github.com/KevoDB/kevo/zsim/simos"
	"github.com/KevoDB/kevo/zsim/simrt"
	"google.golang.org/grpc"
)

// C13, second generator: the replica's receiving side on its own. A real
// Replica (batch applier, decompression, gap handling, EngineApplier, engine on
// the simulated disk) is handed arbitrary stream responses: any slice of the
// primary's log that is cut at sequence-number boundaries (the protocol's unit;
// the entries of a transaction share a number) - ahead of the cursor, behind
// it, overlapping it, duplicated, with an injected apply error at some entry,
// compressed or not, through the streaming and the waiting state's path.
// Oracles as in the cluster runs, after every applied entry, plus: a negative
// acknowledgement never asks for more than the replica is missing.

type UnitMsg struct {
	From     int  `json:"from"`              // first step (1-based) of the slice
	To       int  `json:"to"`                // last step
	FailAt   int  `json:"fail_at,omitempty"` // 1-based entry of the message whose apply fails (0: none)
	Codec    int  `json:"codec,omitempty"`   // 0 none, 1 zstd, 2 snappy (really compressed)
	Direct   bool `json:"direct"`
	HoleFrom int  `json:"hole_from,omitempty"` // steps hole_from..hole_to are missing from the slice (a log file the sender could not read)
	HoleTo   int  `json:"hole_to,omitempty"`
	Back     int  `json:"back,omitempty"` // a stray older step appended at the end
}

type UnitScript struct {
	Steps []kit.Op  `json:"steps"` // the primary's write steps (put/del/batch/txn with distinct keys)
	Msgs  []UnitMsg `json:"msgs"`
}

type nackRecorder struct {
	nacks []uint64
	acks  []uint64
}

func (n *nackRecorder) StreamWAL(ctx context.Context, in *pb.WALStreamRequest, opts ...grpc.CallOption) (grpc.ServerStreamingClient[pb.WALStreamResponse], error) {
	return nil, fmt.Errorf("not connected")
}
func (n *nackRecorder) Acknowledge(ctx context.Context, in *pb.Ack, opts ...grpc.CallOption) (*pb.AckResponse, error) {
	n.acks = append(n.acks, in.AcknowledgedUpTo)
	return &pb.AckResponse{Success: true}, nil
}
func (n *nackRecorder) NegativeAcknowledge(ctx context.Context, in *pb.Nack, opts ...grpc.CallOption) (*pb.NackResponse, error) {
	n.nacks = append(n.nacks, in.MissingFromSequence)
	return &pb.NackResponse{Success: true}, nil
}

type failingApplier struct {
	inner   replication.WALEntryApplier
	failIn  int // fail the n-th Apply from now (0: never)
	counter int
}

func (f *failingApplier) Apply(e *wal.Entry) error {
	if f.failIn > 0 {
		f.counter++
		if f.counter == f.failIn {
			f.failIn, f.counter = 0, 0
			return fmt.Errorf("injected apply failure")
		}
	}
	return f.inner.Apply(e)
}
func (f *failingApplier) Sync() error { return f.inner.Sync() }

func runC13Unit(t *testing.T, c ReplCase) *kit.Result {
	res := kit.NewResult()
	cfg := c.Sched.Config()
	cfg.Verbose = kit.Verbose
	var sim *simrt.Sim
	applies, nacks, rejected := 0, 0, 0
	u := c.Unit
	out := simrt.Run(t, cfg, func() {
		sim = simrt.S
		fs := kit.NewFS()
		kit.TagNode(fs, "n2")
		_ = simos.Current()
		fail := func(kind, sig, detail string) {
			if res.V == nil {
				res.V = &kit.Violation{Kind: kind, Signature: sig, Detail: detail}
			}
		}
		e, err := kit.OpenEngine("n2", c.RK)
		if err != nil {
			fail("open-error", "open-error:replica", err.Error())
			return
		}
		e.SetReadOnly(true)
		// the primary's log, entry by entry
		m := kit.NewModel()
		type ent struct {
			seq uint64
			e   *wal.Entry
		}
		var log [][]ent // per step
		for _, op := range u.Steps {
			ws := op.Writes()
			if len(ws) == 0 {
				continue
			}
			m.Apply(ws)
			seq := uint64(m.Len())
			var es []ent
			for _, w := range ws {
				en := &wal.Entry{SequenceNumber: seq, Type: wal.OpTypePut, Key: w.Key, Value: w.Val}
				if w.Del {
					en.Type, en.Value = wal.OpTypeDelete, nil
				} else if en.Value == nil {
					en.Value = []byte{}
				}
				es = append(es, ent{seq, en})
			}
			log = append(log, es)
		}
		if m.Len() == 0 {
			return
		}
		fa := &failingApplier{inner: replication.NewEngineApplier(e)}
		rec := newRecApplier(fa)
		rn := &replicaNode{name: "n2", e: e, rec: rec}
		rep, err := replication.NewReplica(0, rec, genReplCfgDefault().replicaConfig("n2"))
		if err != nil {
			fail("open-error", "open-error:replica", err.Error())
			return
		}
		rn.rep = rep
		nr := &nackRecorder{}
		rep.VerifSetClient(nr)
		comp, _ := replication.NewCompressionManager()
		var lastReported uint64
		rec.onApply = func(a *recApplied) {
			if res.V != nil || a.Err != nil {
				return
			}
			applies++
			found := false
			if a.Seq >= 1 && int(a.Seq) <= m.Len() {
				for _, w := range m.Step(int(a.Seq)) {
					if string(w.Key) == string(a.Key) && w.Del == (a.Type == wal.OpTypeDelete) {
						found = true
					}
				}
			}
			if !found {
				fail("applied-wrong-entry", "applied-wrong-entry", fmt.Sprintf("the replica applied seq=%d type=%d key=%s, which is not a write of step %d", a.Seq, a.Type, kit.Q(a.Key), a.Seq))
				return
			}
			k, partial, ok := entryPrefixMatch(m, rec.model)
			if !ok {
				var hist []string
				lo := len(rec.log) - 14
				if lo < 0 {
					lo = 0
				}
				for _, x := range rec.log[lo:] {
					hist = append(hist, fmt.Sprintf("seq%d:%s", x.Seq, kit.Q(x.Key)))
				}
				fail("replica-state-not-a-prefix", "replica-state-not-a-prefix", fmt.Sprintf("after the replica applied seq=%d key=%s its data is not the primary's data after any prefix of the %d steps: %s\nlast applied: %v", a.Seq, kit.Q(a.Key), m.Len(), kit.EqualState(rec.model, m.State(m.Len())), hist))
				return
			}
			full := k
			if partial {
				full = k - 1
			}
			if full > rn.bestK {
				rn.bestK = full
			}
		}
		for mi, msg := range u.Msgs {
			if res.V != nil {
				break
			}
			from, to := msg.From, msg.To
			if from < 1 {
				from = 1
			}
			if to > len(log) {
				to = len(log)
			}
			if from > to {
				continue
			}
			resp := &pb.WALStreamResponse{}
			steps := []int{}
			for s := from; s <= to; s++ {
				if msg.HoleFrom > 0 && s >= msg.HoleFrom && s <= msg.HoleTo {
					continue
				}
				steps = append(steps, s)
			}
			if msg.Back >= 1 && msg.Back <= len(log) {
				steps = append(steps, msg.Back)
			}
			for _, s := range steps {
				for _, x := range log[s-1] {
					pe, err := replication.WALEntryToProto(x.e, pb.FragmentType_FULL)
					if err != nil {
						fail("harness", "harness:encode", err.Error())
						return
					}
					resp.Entries = append(resp.Entries, pe)
				}
			}
			if msg.Codec != 0 {
				resp.Compressed, resp.Codec = true, codecOf(msg.Codec)
				for _, pe := range resp.Entries {
					pe.Payload, err = comp.Compress(pe.Payload, resp.Codec)
					if err != nil {
						fail("harness", "harness:compress", err.Error())
						return
					}
				}
			}
			fa.failIn, fa.counter = msg.FailAt, 0
			before := len(nr.nacks)
			perr := rep.VerifProcess(resp, msg.Direct)
			fa.failIn = 0
			if perr != nil {
				rejected++
			}
			simrt.Note("msg %d steps %d..%d fail_at=%d -> err=%v, nacks=%v", mi, from, to, msg.FailAt, perr, nr.nacks[before:])
			for _, want := range nr.nacks[before:] {
				nacks++
				// the retransmission it asks for must start at or before the first thing it lacks
				if want == 0 || int(want) > rn.bestK+1 {
					fail("nack-skips-entries", "nack-skips-entries", fmt.Sprintf("after message %d (steps %d..%d) the replica asked for retransmission from sequence %d, but what it has applied amounts to steps 1..%d only: steps in between would never arrive", mi, from, to, want, rn.bestK))
				}
			}
			rp := rep.GetLastAppliedSequence()
			if rp < lastReported {
				fail("reported-sequence-decreased", "reported-sequence-decreased", fmt.Sprintf("GetLastAppliedSequence() went from %d to %d after message %d", lastReported, rp, mi))
			}
			lastReported = rp
			if int(rp) > rn.bestK {
				fail("reported-sequence-ahead", "reported-sequence-ahead:of-applied", fmt.Sprintf("after message %d the replica reports applied sequence %d but what it has applied never amounted to more than steps 1..%d", mi, rp, rn.bestK))
			}
		}
		if res.V == nil {
			rs, err := scanState(e)
			if err != nil {
				fail("replica-error", "replica-error:scan", err.Error())
			} else if d := kit.EqualState(rs, rec.model); d != "" {
				fail("engine-differs-from-applied", "engine-differs-from-applied", d)
			}
		}
		rep.Stop()
		e.Close()
	})
	res.Absorb(out)
	if sim != nil && kit.Verbose {
		res.Trace = sim.TraceLines()
	}
	res.Probes["unit_entries_applied"] += int64(applies)
	res.Probes["unit_negative_acknowledgements"] += int64(nacks)
	res.Probes["unit_messages_rejected_or_failed"] += int64(rejected)
	res.Nontrivial = applies >= 2 && res.V == nil
	res.Note = fmt.Sprintf("unit: %d steps, %d messages, %d applies, %d nacks", len(u.Steps), len(u.Msgs), applies, nacks)
	return res
}

func genReplCfgDefault() ReplCfg {
	return ReplCfg{BatchKB: 256, HBIntervalMs: 10000, HBTimeoutMs: 30000, RCompress: 1}
}

func genUnitScript(r *kit.Rand) *UnitScript {
	u := &UnitScript{}
	ks := kit.GenKeySpace(r, 6)
	var tag uint32
	n := r.Range(2, 30)
	for i := 0; i < n; i++ {
		switch r.Pick(6, 2, 4) {
		case 0:
			tag++
			u.Steps = append(u.Steps, kit.Op{K: "put", Key: ks.Pick(r), Tag: tag, Len: r.Range(0, 40)})
		case 1:
			u.Steps = append(u.Steps, kit.Op{K: "del", Key: ks.Pick(r)})
		case 2:
			g := kit.Op{K: "batch"}
			used := map[string]bool{}
			for j, m := 0, r.Range(2, 5); j < m; j++ {
				k := ks.Pick(r)
				if used[string(k)] {
					continue
				}
				used[string(k)] = true
				if r.Bool(0.8) {
					tag++
					g.Sub = append(g.Sub, kit.Op{K: "put", Key: k, Tag: tag, Len: r.Range(0, 40)})
				} else {
					g.Sub = append(g.Sub, kit.Op{K: "del", Key: k})
				}
			}
			u.Steps = append(u.Steps, g)
		}
	}
	// deliveries: a cursor that mostly moves forward, with every kind of disorder
	cur := 1
	for i, k := 0, r.Range(2, 25); i < k; i++ {
		msg := UnitMsg{Direct: r.Bool(0.7), Codec: r.Pick(6, 2, 2)}
		switch r.Pick(10, 3, 3, 3, 2) {
		case 0: // the next slice
			msg.From, msg.To = cur, cur+r.Range(0, 6)
		case 1: // overlapping what was sent
			msg.From = cur - r.Range(1, 5)
			msg.To = msg.From + r.Range(0, 8)
		case 2: // ahead: a gap
			msg.From = cur + r.Range(1, 4)
			msg.To = msg.From + r.Range(0, 4)
		case 3: // an old duplicate
			msg.From = r.Range(1, cur)
			msg.To = msg.From + r.Range(0, 3)
		case 4: // everything from the start
			msg.From, msg.To = 1, cur+r.Range(0, 5)
		}
		if r.Bool(0.15) {
			msg.FailAt = r.Range(1, 6)
		}
		if r.Bool(0.12) && msg.To-msg.From >= 2 {
			msg.HoleFrom = msg.From + r.Range(1, msg.To-msg.From-1)
			msg.HoleTo = msg.HoleFrom + r.Range(0, 2)
			if msg.HoleTo >= msg.To {
				msg.HoleTo = msg.To - 1
			}
		}
		if r.Bool(0.04) {
			msg.Back = r.Range(1, n)
		}
		if msg.To+1 > cur && msg.From <= cur && msg.FailAt == 0 && msg.HoleFrom == 0 {
			cur = msg.To + 1
		}
		if cur > n {
			cur = n
		}
		u.Msgs = append(u.Msgs, msg)
	}
	return u
}

func shrinkUnit(u *UnitScript) []*UnitScript {
	var out []*UnitScript
	for i := range u.Msgs {
		d := &UnitScript{Steps: u.Steps, Msgs: append(append([]UnitMsg(nil), u.Msgs[:i]...), u.Msgs[i+1:]...)}
		out = append(out, d)
	}
	for i, m := range u.Msgs {
		if m.Codec != 0 || m.FailAt != 0 {
			d := &UnitScript{Steps: u.Steps, Msgs: append([]UnitMsg(nil), u.Msgs...)}
			d.Msgs[i].Codec = 0
			if m.Codec == 0 {
				d.Msgs[i].FailAt = 0
			}
			out = append(out, d)
		}
	}
	if len(u.Steps) > 2 {
		out = append(out, &UnitScript{Steps: u.Steps[:len(u.Steps)-1], Msgs: u.Msgs})
	}
	return out
}
