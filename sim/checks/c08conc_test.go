package checks

import (
	"fmt"
	"net"
	"sort"
	"testing"
	"time"

	"github.com/KevoDB/kevo/pkg/replication"
	"github.com/KevoDB/kevo/pkg/wal"
	"github.com/KevoDB/kevo/zsim/kit"
	"github.com/KevoDB/kevo/zsim/simnet"
	"github.com/KevoDB/kevo/zsim/simrt"
	"github.com/KevoDB/kevo/zsim/simsync"
)

// C08, concurrent part: several writer tasks, the flush goroutine and explicit
// flushes (log rotation), observers that keep reading the reported last
// sequence from the statistics and - when the node is a replication primary -
// from the replication manager's node information. The number every write was
// stamped with is taken from the log's own observer interface (the one the
// replication primary uses); keys are unique per operation.
//
// Oracles, all in terms of calls that did not overlap (invoke/return stamped
// with a global event counter):
//   - a write invoked after another write was acknowledged carries a higher number;
//   - a reading of a reported last sequence taken after an earlier reading
//     returned is not smaller than it;
//   - a reading of the statistics taken after a write was acknowledged is not
//     smaller than that write's number.

type SeqCase struct {
	KVCase
	Conc *SeqConc `json:"conc,omitempty"`
}

type SeqConc struct {
	Writers   [][]kit.Op `json:"writers"`
	Maint     []string   `json:"maint,omitempty"` // flush | compact | sleep
	Primary   bool       `json:"primary,omitempty"`
	Observers int        `json:"observers"`
}

type seqRecorder struct {
	byKey map[string]uint64
	n     int
}

func (r *seqRecorder) OnWALEntryWritten(en *wal.Entry) {
	r.byKey[string(en.Key)] = en.SequenceNumber
	r.n++
}

func (r *seqRecorder) OnWALBatchWritten(startSeq uint64, entries []*wal.Entry) {
	// the entries of a batch share the number it was given
	for _, en := range entries {
		r.byKey[string(en.Key)] = startSeq
		r.n++
	}
}

func (r *seqRecorder) OnWALSync(upTo uint64) {}

// stamped is a value observed by a call with its invoke/return stamps; series
// are kept in return order with the running maximum.
type stamped struct {
	call, ret int64
	val       uint64
	what      string
}

type series struct {
	items []stamped
	pmax  []int // index of the item with the highest value among items[:i+1]
}

func (s *series) add(x stamped) {
	s.items = append(s.items, x)
	best := len(s.items) - 1
	if n := len(s.pmax); n > 0 && s.items[s.pmax[n-1]].val >= x.val {
		best = s.pmax[n-1]
	}
	s.pmax = append(s.pmax, best)
}

// maxBefore returns the item with the highest value among those that had
// returned before the given invoke stamp.
func (s *series) maxBefore(call int64) (stamped, bool) {
	i := sort.Search(len(s.items), func(i int) bool { return s.items[i].ret >= call })
	if i == 0 {
		return stamped{}, false
	}
	return s.items[s.pmax[i-1]], true
}

func runC08Conc(t *testing.T, c SeqCase) *kit.Result {
	res := kit.NewResult()
	cfg := c.Sched.Config()
	cfg.Verbose = kit.Verbose
	var sim *simrt.Sim
	out := simrt.Run(t, cfg, func() {
		sim = simrt.S
		fs := kit.NewFS()
		kit.TagNode(fs, "n1")
		e, err := kit.OpenEngine("n1", c.Knobs)
		if err != nil {
			res.V = &kit.Violation{Kind: "open-error", Signature: "open-error", Detail: err.Error()}
			return
		}
		fail := func(v *kit.Violation) {
			if res.V == nil {
				res.V = v
				simrt.Stop()
			}
		}
		var pmgr *replication.Manager
		if c.Conc.Primary && replication.VerifHooked {
			replication.VerifListen = func(addr string) (net.Listener, error) { return simnet.NewListener(addr), nil }
			mc := replication.DefaultManagerConfig()
			mc.Enabled, mc.Mode, mc.ListenAddr = true, replication.ReplicationModePrimary, "n1:50052"
			if pmgr, err = replication.NewManager(e, mc); err == nil {
				err = pmgr.Start()
			}
			if err != nil {
				res.V = &kit.Violation{Kind: "open-error", Signature: "open-error:replication-manager", Detail: err.Error()}
				return
			}
		}
		rec := &seqRecorder{byKey: map[string]uint64{}}
		w := e.GetWAL()
		if w == nil {
			res.V = &kit.Violation{Kind: "open-error", Signature: "open-error:no-log", Detail: "engine returned no log object"}
			return
		}
		w.RegisterObserver("verif-sequence-recorder", rec)

		var evt int64
		var acks, stat, proto series
		acked, overlaps := 0, 0
		readStat := func(who string) {
			evt++
			call := evt
			v, ok := lastSeq(e)
			evt++
			if !ok {
				fail(&kit.Violation{Kind: "no-stat", Signature: "no-last-sequence-stat", Detail: "storage_last_sequence missing from GetStats"})
				return
			}
			x := stamped{call, evt, v, who}
			if p, ok := stat.maxBefore(call); ok && p.val > v {
				fail(&kit.Violation{Kind: "reported-sequence-regressed", Signature: "reported-regressed-live:statistics", Detail: fmt.Sprintf("%s read storage_last_sequence=%d [events %d-%d] after %s had read %d [events %d-%d]", who, v, call, evt, p.what, p.val, p.call, p.ret)})
			}
			if a, ok := acks.maxBefore(call); ok && a.val > v {
				fail(&kit.Violation{Kind: "reported-sequence-regressed", Signature: "reported-below-acknowledged-write", Detail: fmt.Sprintf("%s read storage_last_sequence=%d [events %d-%d] although %s had been acknowledged with sequence %d at event %d", who, v, call, evt, a.what, a.val, a.ret)})
			}
			stat.add(x)
		}
		readProto := func(who string) {
			if pmgr == nil {
				return
			}
			evt++
			call := evt
			_, _, _, v, _ := pmgr.GetNodeInfo()
			evt++
			if p, ok := proto.maxBefore(call); ok && p.val > v {
				fail(&kit.Violation{Kind: "reported-sequence-regressed", Signature: "reported-regressed-live:replication", Detail: fmt.Sprintf("%s got last_sequence=%d from the replication manager's node information [events %d-%d] after %s had got %d [events %d-%d]", who, v, call, evt, p.what, p.val, p.call, p.ret)})
			}
			proto.add(stamped{call, evt, v, who})
		}

		var wg simsync.WaitGroup
		running := len(c.Conc.Writers)
		for wi, ops := range c.Conc.Writers {
			wi, ops := wi, ops
			wg.Add(1)
			simrt.GoNamed(fmt.Sprintf("writer%d", wi), func() {
				defer wg.Done()
				defer func() { running-- }()
				who := fmt.Sprintf("writer %d", wi)
				for _, op := range ops {
					if res.V != nil {
						return
					}
					if op.K == "sleep" {
						simrt.Sleep(time.Duration(op.D) * time.Microsecond)
						continue
					}
					evt++
					call := evt
					r := kit.ExecWrite(e, op)
					evt++
					ret := evt
					if r.Err != nil {
						res.Probe("write_errors")
						continue
					}
					ws := op.Writes()
					if len(ws) == 0 {
						continue
					}
					var lo, hi uint64
					for i, x := range ws {
						sq, ok := rec.byKey[string(x.Key)]
						if !ok {
							fail(&kit.Violation{Kind: "write-not-announced", Signature: "acknowledged-write-not-announced-to-log-observer", Detail: fmt.Sprintf("%s: %s was acknowledged but the log never announced an entry for key %s to its registered observer", who, op, kit.Q(x.Key))})
							return
						}
						if i == 0 || sq < lo {
							lo = sq
						}
						if sq > hi {
							hi = sq
						}
					}
					acked++
					if a, ok := acks.maxBefore(call); ok && a.val >= lo {
						fail(&kit.Violation{Kind: "sequence-not-increasing", Signature: "write-sequence-not-increasing:concurrent:" + op.K, Detail: fmt.Sprintf("%s: %s [events %d-%d] was stamped with sequence %d although %s had been acknowledged with sequence %d at event %d, before it was issued", who, op, call, ret, lo, a.what, a.val, a.ret)})
						return
					}
					if n := len(acks.items); n > 0 && acks.items[n-1].ret > call {
						overlaps++
					}
					acks.add(stamped{call, ret, hi, fmt.Sprintf("%s of %s", op, who)})
					readStat(who)
					readProto(who)
				}
			})
		}
		for oi := 0; oi < c.Conc.Observers; oi++ {
			oi := oi
			wg.Add(1)
			simrt.GoNamed(fmt.Sprintf("observer%d", oi), func() {
				defer wg.Done()
				who := fmt.Sprintf("observer %d", oi)
				for n := 0; running > 0 && res.V == nil && n < 400; n++ {
					readStat(who)
					readProto(who)
					simrt.Sleep(time.Duration(20+37*((n+oi)%11)) * time.Microsecond)
				}
			})
		}
		rotations := 0
		if len(c.Conc.Maint) > 0 {
			wg.Add(1)
			simrt.GoNamed("maintenance", func() {
				defer wg.Done()
				for _, m := range c.Conc.Maint {
					if running == 0 || res.V != nil {
						return
					}
					switch m {
					case "flush":
						e.FlushImMemTables()
						rotations++
					case "compact":
						e.TriggerCompaction()
					default:
						simrt.Sleep(200 * time.Microsecond)
					}
					readStat("maintenance")
					readProto("maintenance")
				}
			})
		}
		wg.Wait()
		if res.V != nil {
			return
		}
		readStat("final reader")
		readProto("final reader")
		if pmgr != nil {
			pmgr.Stop()
		}
		e.Close()
		if res.V == nil {
			gs, err := walGroups("n1")
			if err != nil {
				fail(&kit.Violation{Kind: "log-replay-error", Signature: "log-replay-error", Detail: err.Error()})
			} else if v := checkGroups(gs, "at end (concurrent writers)"); v != nil {
				fail(v)
			}
		}
		res.Probes["concurrent_acknowledged_writes"] += int64(acked)
		res.Probes["writes_overlapping_an_earlier_write"] += int64(overlaps)
		res.Probes["rotations"] += int64(rotations)
		res.Probes["statistics_readings"] += int64(len(stat.items))
		res.Probes["replication_readings"] += int64(len(proto.items))
		res.Nontrivial = acked >= 3 && len(c.Conc.Writers) >= 2
		res.Note = fmt.Sprintf("%d writers, %d acknowledged writes (%d overlapping an earlier one), %d explicit flushes, %d statistics and %d replication readings, primary=%v", len(c.Conc.Writers), acked, overlaps, rotations, len(stat.items), len(proto.items), pmgr != nil)
	})
	res.Absorb(out)
	if sim != nil && kit.Verbose {
		res.Trace = sim.TraceLines()
	}
	return res
}

func genSeqConc(r *kit.Rand, tier string) SeqCase {
	c := SeqCase{KVCase: KVCase{Sched: kit.GenSched(r, kit.PickOf(r, "conc", "conc", "dense")), Knobs: kit.GenKnobs(r)}}
	c.Sched.MaxVirtS = 3600
	c.Knobs.MemTableSize = kit.PickOf(r, int64(256), 512, 1024, 4096, 65536)
	c.Knobs.DiskUs = kit.PickOf(r, 0, 100, 1000)
	if r.Bool(0.3) {
		c.Sched.TimePassP = kit.PickOf(r, 0.002, 0.01)
	}
	cc := &SeqConc{Primary: r.Bool(0.5), Observers: r.Range(0, 2)}
	nw := r.Range(2, 5)
	if tier == "thorough" {
		nw = r.Range(2, 8)
	}
	var tag uint32
	for wi := 0; wi < nw; wi++ {
		var ops []kit.Op
		for oi, n := 0, r.Range(2, 12); oi < n; oi++ {
			key := func(j int) []byte { return []byte(fmt.Sprintf("w%d/%02d/%d", wi, oi, j)) }
			tag++
			put := func(j int) kit.Op {
				tag++
				return kit.Op{K: "put", Key: key(j), Tag: tag, Len: kit.PickOf(r, 1, 10, 60, 300)}
			}
			switch r.Pick(8, 3, 3, 3, 1) {
			case 0:
				ops = append(ops, put(0))
			case 1:
				ops = append(ops, kit.Op{K: "del", Key: key(0)})
			case 2:
				b := kit.Op{K: "batch"}
				for j, m := 0, r.Range(1, 5); j < m; j++ {
					if r.Bool(0.8) {
						b.Sub = append(b.Sub, put(j))
					} else {
						b.Sub = append(b.Sub, kit.Op{K: "del", Key: key(j)})
					}
				}
				ops = append(ops, b)
			case 3:
				x := kit.Op{K: "txn", Commit: true}
				for j, m := 0, r.Range(1, 4); j < m; j++ {
					x.Sub = append(x.Sub, put(j))
				}
				ops = append(ops, x)
			default:
				ops = append(ops, kit.Op{K: "sleep", D: int64(r.Range(10, 3000))})
			}
		}
		cc.Writers = append(cc.Writers, ops)
	}
	for i, n := 0, r.Range(0, 10); i < n; i++ {
		cc.Maint = append(cc.Maint, kit.PickOf(r, "flush", "flush", "compact", "sleep"))
	}
	c.Conc = cc
	return c
}

func shrinkSeqConc(c SeqCase) []SeqCase {
	var out []SeqCase
	with := func(f func(cc *SeqConc)) {
		cc := *c.Conc
		cc.Writers = append([][]kit.Op(nil), c.Conc.Writers...)
		f(&cc)
		d := c
		d.Conc = &cc
		out = append(out, d)
	}
	if len(c.Conc.Writers) > 2 {
		for i := range c.Conc.Writers {
			with(func(cc *SeqConc) { cc.Writers = append(cc.Writers[:i:i], cc.Writers[i+1:]...) })
		}
	}
	for i, ops := range c.Conc.Writers {
		for j := range ops {
			with(func(cc *SeqConc) { cc.Writers[i] = append(append([]kit.Op(nil), ops[:j]...), ops[j+1:]...) })
		}
	}
	if len(c.Conc.Maint) > 0 {
		with(func(cc *SeqConc) { cc.Maint = cc.Maint[:len(cc.Maint)/2] })
	}
	if c.Conc.Observers > 0 {
		with(func(cc *SeqConc) { cc.Observers-- })
	}
	if c.Conc.Primary {
		with(func(cc *SeqConc) { cc.Primary = false })
	}
	return out
}
