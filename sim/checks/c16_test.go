package checks

import (
	"context"
	"fmt"
	"reflect"
	"sort"
	"strings"
	"testing"
	"time"

	"github.com/KevoDB/kevo/pkg/engine"
	"github.com/KevoDB/kevo/pkg/grpc/service"
	"github.com/KevoDB/kevo/pkg/replication"
	"github.com/KevoDB/kevo/pkg/transaction"
	"github.com/KevoDB/kevo/pkg/wal"
	pb "github.com/KevoDB/kevo/proto/kevo"
	"github.com/KevoDB/kevo/zsim/kit"
	"github.com/KevoDB/kevo/zsim/simrt"
	"github.com/KevoDB/kevo/zsim/simsync"
)

// C16 — a replica refuses client writes but keeps applying replicated ones.
// A replica engine (read-only flag set as the replication manager sets it)
// with the real EngineApplier fed by an applier task, and client tasks calling
// every method of *engine.EngineFacade and of pb.KevoServiceServer found by
// reflection with generated arguments - the method sets are read at run time,
// so an added entry point is exercised without editing the check.

type RoCase struct {
	Sched   kit.Sched `json:"sched"`
	Knobs   kit.Knobs `json:"knobs"`
	Applied []kit.Op  `json:"applied"` // replicated entries: put del (merge = put with Nil=false,K="merge")
	Calls   []RoCall  `json:"calls"`
	Clients int       `json:"clients"`
	Conc    bool      `json:"conc"` // clients run concurrently with the applier (else phases alternate)
	// StopAt > 0: the replication manager is stopped (as a server shutting down
	// does first) after that many client calls - sequential mode - or that many
	// virtual milliseconds - concurrent mode; clients keep calling
	StopAt int `json:"stop_at,omitempty"`
	// Early (concurrent mode, real manager): the applier task does not wait for
	// Manager.Start to return - replicated entries arrive as soon as the
	// replica's own loop runs, which Manager.startReplica starts before it
	// makes the engine read-only
	Early bool `json:"early,omitempty"`
	// Mode, if set, is the replication mode string given to the manager instead
	// of "replica" (other spellings): the node either refuses to start or is a
	// replica in every respect
	Mode string `json:"mode,omitempty"`
	// PreWritable: before replication is set up, the embedding program "makes
	// sure" the engine is writable (SetReadOnly(false) on a writable engine,
	// that many times) - which changes nothing
	PreWritable int `json:"pre_writable,omitempty"`
}

// unreachablePrimary is the connector of a replica whose primary is not there.
type unreachablePrimary struct{ up func() }

func (u unreachablePrimary) Connect(r *replication.Replica) error {
	if u.up != nil {
		u.up() // the replica's loop runs: Replica.Start has been called
	}
	simrt.Sleep(200 * time.Millisecond)
	return fmt.Errorf("failed to connect to primary at primary.example:50052: connection refused")
}

type RoCall struct {
	Target string `json:"target"` // engine | service
	Method int    `json:"method"` // index modulo the number of methods found
	Arg    int    `json:"arg"`    // argument variation
}

var roExcluded = map[string]string{
	"Close":              "ends the engine",
	"SetReadOnly":        "administrative switch used by the replication manager itself",
	"PutInternal":        "the applier's bypass, not a client entry point",
	"DeleteInternal":     "the applier's bypass, not a client entry point",
	"ApplyBatchInternal": "the applier's bypass, not a client entry point",
	"GetWAL":             "hands out the log object to the replication layer",
	"mustEmbedUnimplementedKevoServiceServer": "marker",
	"CleanupConnection":                       "connection bookkeeping",
}

// classified mutating: these must be refused with a read-only error
var roMutating = map[string]bool{
	"engine.Put": true, "engine.Delete": true, "engine.ApplyBatch": true,
	"service.Put": true, "service.Delete": true, "service.BatchWrite": true, "service.TxPut": true, "service.TxDelete": true,
}

func methodsOf(v any) []string {
	t := reflect.TypeOf(v)
	var names []string
	for i := 0; i < t.NumMethod(); i++ {
		if _, skip := roExcluded[t.Method(i).Name]; !skip {
			names = append(names, t.Method(i).Name)
		}
	}
	sort.Strings(names)
	return names
}

func isReadOnlyErr(err error) bool {
	if err == nil {
		return false
	}
	s := strings.ToLower(err.Error())
	return strings.Contains(s, "read-only") || strings.Contains(s, "read only") || strings.Contains(s, "readonly")
}

func runC16(t *testing.T, c RoCase) *kit.Result {
	res := kit.NewResult()
	cfg := c.Sched.Config()
	cfg.Verbose = kit.Verbose
	var sim *simrt.Sim
	out := simrt.Run(t, cfg, func() {
		sim = simrt.S
		fs := kit.NewFS()
		kit.TagNode(fs, "n1")
		e, err := kit.OpenEngine("n1", c.Knobs)
		if err != nil {
			res.V = &kit.Violation{Kind: "open-error", Signature: "open-error:first", Detail: err.Error()}
			return
		}
		for i := 0; i < c.PreWritable; i++ {
			e.SetReadOnly(false)
		}
		mode := replication.ReplicationModeReplica
		if c.Mode != "" && replication.VerifHooked {
			mode = c.Mode
		}
		mgr, _ := replication.NewManager(e, &replication.ManagerConfig{Enabled: true, Mode: mode, PrimaryAddr: "primary.example:50052", ListenAddr: "replica.example:50053", ForceReadOnly: true})
		var applier replication.WALEntryApplier
		reg := transaction.NewRegistryWithTTL(5*time.Minute, 2*time.Minute, 75, 90)
		svc := service.NewKevoServiceServer(e, reg, mgr)
		ctx := context.WithValue(context.Background(), "peer", "client-x")
		m := kit.NewModel()
		engMethods := methodsOf(e)
		svcMethods := methodsOf(svc)
		fail := func(v *kit.Violation) {
			if res.V == nil {
				res.V = v
				simrt.Stop()
			}
		}
		clientKeys := [][]byte{[]byte("rk0"), []byte("rk1"), []byte("client-only")}
		for _, k := range clientKeys {
			m.Touch(k)
		}
		var handle string // a transaction handle obtained through the service
		mutatingCalls, refused := 0, 0
		// argument synthesis by parameter type
		mkArgs := func(mt reflect.Type, arg int, skipRecv bool) ([]reflect.Value, bool) {
			var args []reflect.Value
			first := 0
			if skipRecv {
				first = 1
			}
			nBytes := 0
			for i := first; i < mt.NumIn(); i++ {
				pt := mt.In(i)
				switch {
				case pt == reflect.TypeOf([]byte(nil)):
					if nBytes == 0 {
						args = append(args, reflect.ValueOf(clientKeys[arg%len(clientKeys)]))
					} else {
						args = append(args, reflect.ValueOf([]byte(fmt.Sprintf("client-write-%d", arg))))
					}
					nBytes++
				case pt.Kind() == reflect.Bool:
					args = append(args, reflect.ValueOf(arg%2 == 1))
				case pt == reflect.TypeOf([]*wal.Entry(nil)):
					// batches of one, two and three entries, put-first and delete-first
					ents := []*wal.Entry{{Type: wal.OpTypePut, Key: clientKeys[arg%len(clientKeys)], Value: []byte("client-batch")}, {Type: wal.OpTypeDelete, Key: clientKeys[(arg+1)%len(clientKeys)]}, {Type: wal.OpTypePut, Key: clientKeys[(arg+2)%len(clientKeys)], Value: []byte("client-batch-2")}}
					if arg%2 == 1 {
						ents[0], ents[1] = ents[1], ents[0]
					}
					args = append(args, reflect.ValueOf(ents[:1+arg%3]))
				case pt.Implements(reflect.TypeOf((*context.Context)(nil)).Elem()):
					args = append(args, reflect.ValueOf(ctx))
				case pt.Kind() == reflect.Ptr && strings.HasSuffix(pt.Elem().Name(), "Request"):
					req := reflect.New(pt.Elem())
					for f := 0; f < pt.Elem().NumField(); f++ {
						fld := req.Elem().Field(f)
						if !fld.CanSet() {
							continue
						}
						switch pt.Elem().Field(f).Name {
						case "Key", "StartKey":
							fld.SetBytes(clientKeys[arg%len(clientKeys)])
						case "Value":
							fld.SetBytes([]byte(fmt.Sprintf("client-write-%d", arg)))
						case "TransactionId":
							fld.SetString(handle)
						case "ReadOnly":
							fld.SetBool(arg%2 == 1)
						case "Operations":
							ops := []*pb.Operation{{Type: pb.Operation_PUT, Key: clientKeys[arg%len(clientKeys)], Value: []byte("client-batch")}, {Type: pb.Operation_DELETE, Key: clientKeys[(arg+1)%len(clientKeys)]}, {Type: pb.Operation_PUT, Key: clientKeys[(arg+2)%len(clientKeys)], Value: []byte("client-batch-2")}}
							if arg%2 == 1 {
								ops[0], ops[1] = ops[1], ops[0]
							}
							fld.Set(reflect.ValueOf(ops[:1+arg%3]))
						default:
							// options the check knows nothing about (Compact's force flag, ...)
							if fld.Kind() == reflect.Bool {
								fld.SetBool(arg%2 == 0)
							}
						}
					}
					args = append(args, req)
				case pt.Kind() == reflect.Interface && strings.Contains(pt.String(), "ServerStreamingServer[") && strings.Contains(pt.String(), "TxScanResponse"):
					args = append(args, reflect.ValueOf(&collectStream[pb.TxScanResponse]{ctx: ctx}))
				case pt.Kind() == reflect.Interface && strings.Contains(pt.String(), "ServerStreamingServer["):
					args = append(args, reflect.ValueOf(&collectStream[pb.ScanResponse]{ctx: ctx}))
				default:
					return nil, false
				}
			}
			return args, true
		}
		snapshotState := func() map[string][]byte {
			// the data fingerprint: what a full scan and point reads show
			obs, _, err := kit.Observe(e, m.Keys())
			if err != nil {
				return nil
			}
			for k, v := range obs.Scan {
				obs.Gets[k] = v
			}
			return obs.Gets
		}
		doCall := func(call RoCall, check bool) {
			var recv reflect.Value
			var names []string
			target := call.Target
			if target == "engine" {
				recv, names = reflect.ValueOf(e), engMethods
			} else {
				recv, names = reflect.ValueOf(svc), svcMethods
			}
			name := names[call.Method%len(names)]
			mv := recv.MethodByName(name)
			args, ok := mkArgs(mv.Type(), call.Arg, false)
			if !ok {
				res.Probe("methods_without_argument_synthesis")
				return
			}
			simrt.Note("client call %s.%s arg=%d", target, name, call.Arg)
			outs := mv.Call(args)
			var callErr error
			for _, o := range outs {
				if o.Type().Implements(reflect.TypeOf((*error)(nil)).Elem()) && !o.IsNil() {
					callErr = o.Interface().(error)
				}
			}
			// follow-ups that make the call's purpose effective
			switch {
			case target == "engine" && name == "BeginTransaction" && callErr == nil:
				// a client that asked for a read-write transaction tries to write through it
				if tx, ok := outs[0].Interface().(interface {
					Put(k, v []byte) error
					Commit() error
					Rollback() error
				}); ok {
					werr := tx.Put(clientKeys[call.Arg%len(clientKeys)], []byte("client-tx-write"))
					cerr := tx.Commit()
					mutatingCalls++
					if isReadOnlyErr(werr) || isReadOnlyErr(cerr) {
						refused++
					} else if werr == nil && cerr == nil {
						fail(&kit.Violation{Kind: "replica-accepts-write", Signature: "replica-accepts-transaction-write", Detail: fmt.Sprintf("BeginTransaction(%v) on a replica gave a transaction whose Put and Commit succeeded", call.Arg%2 == 1)})
					}
				}
			case target == "service" && name == "BeginTransaction" && callErr == nil:
				if r, ok := outs[0].Interface().(*pb.BeginTransactionResponse); ok && r != nil {
					if handle != "" {
						svc.RollbackTransaction(ctx, &pb.RollbackTransactionRequest{TransactionId: handle})
					}
					handle = r.TransactionId
				}
			case target == "service" && (name == "CommitTransaction" || name == "RollbackTransaction"):
				handle = ""
			}
			if roMutating[target+"."+name] {
				mutatingCalls++
				if name == "BatchWrite" || name == "ApplyBatch" || (name != "TxPut" && name != "TxDelete") || handle != "" {
					switch {
					case isReadOnlyErr(callErr):
						refused++
					case callErr == nil:
						fail(&kit.Violation{Kind: "replica-accepts-write", Signature: "replica-accepts-write:" + target + "." + name, Detail: fmt.Sprintf("%s.%s returned no error on a read-only replica", target, name)})
					default:
						if !(strings.Contains(callErr.Error(), "transaction not found")) {
							fail(&kit.Violation{Kind: "replica-write-error-kind", Signature: "replica-refuses-without-read-only-error:" + target + "." + name, Detail: fmt.Sprintf("%s.%s on a replica failed with %q, which does not say read-only", target, name, callErr)})
						}
					}
				}
			}
			if name == "GetNodeInfo" && callErr == nil {
				if r, ok := outs[0].Interface().(*pb.GetNodeInfoResponse); ok && r != nil {
					if r.NodeRole != pb.GetNodeInfoResponse_REPLICA || r.PrimaryAddress != "primary.example:50052" || !r.ReadOnly {
						fail(&kit.Violation{Kind: "node-info", Signature: "node-info-untruthful", Detail: fmt.Sprintf("GetNodeInfo on a replica of primary.example:50052 reports role=%v primary=%q read_only=%v", r.NodeRole, r.PrimaryAddress, r.ReadOnly)})
					}
				}
			}
			if check && res.V == nil {
				if d := kit.EqualState(snapshotState(), m.State(m.Len())); d != "" {
					fail(&kit.Violation{Kind: "replica-data-changed", Signature: "client-call-changed-replica-data:" + target + "." + name, Detail: fmt.Sprintf("after client call %s.%s (arg %d, error %v) the replica's data differs from the replicated operations: %s", target, name, call.Arg, callErr, d)})
				}
			}
		}
		applyOne := func(i int, op kit.Op) {
			en := &wal.Entry{SequenceNumber: uint64(i + 1), Key: op.Key}
			switch op.K {
			case "put":
				en.Type, en.Value = wal.OpTypePut, op.Value()
			case "merge":
				en.Type, en.Value = wal.OpTypeMerge, op.Value()
			default:
				en.Type = wal.OpTypeDelete
			}
			t0 := simrt.NowUnstalled()
			err := applier.Apply(en)
			if waited := time.Duration(simrt.NowUnstalled() - t0); waited > 10*time.Second && res.V == nil {
				fail(&kit.Violation{Kind: "replica-apply-stalled", Signature: "replicated-entry-waited-for-clients", Detail: fmt.Sprintf("EngineApplier.Apply(%s %s) took %s of virtual time (injected stalls not counted) while clients were using the replica (open transaction handle: %v)", op.K, kit.Q(op.Key), waited, handle != "")})
				return
			}
			if err != nil {
				if isReadOnlyErr(err) {
					fail(&kit.Violation{Kind: "replica-apply-failed", Signature: "replicated-entry-refused-as-read-only", Detail: fmt.Sprintf("EngineApplier.Apply(%s %s) on the read-only replica: %v", op.K, kit.Q(op.Key), err)})
					return
				}
				// a transient storage error (e.g. retries exhausted during a stalled log
				// rotation): the entry has no effect and the replication layer asks again;
				// whether it does is C13/C14's subject
				res.Probe("apply_errors")
				return
			}
			w := kit.W{Key: op.Key, Val: en.Value, Del: en.Type == wal.OpTypeDelete}
			m.Apply([]kit.W{w})
		}
		// the applier task of the concurrent mode
		var wg simsync.WaitGroup
		launched := false
		launchApplier := func() {
			if launched {
				return
			}
			launched = true
			wg.Add(1)
			simrt.GoNamed("applier", func() {
				defer wg.Done()
				for i, op := range c.Applied {
					if res.V != nil {
						return
					}
					applyOne(i, op)
				}
			})
		}
		started := false
		if replication.VerifHooked {
			// the manager itself starts the replica (which keeps trying to reach
			// a primary that is not there) and makes the engine read-only
			replication.VerifNewConnector = func() replication.PrimaryConnector {
				return unreachablePrimary{up: func() {
					// the replica's loop runs (Replica.Start has been called): from now
					// on a primary may push entries, whatever Manager.Start still has to do
					if c.Conc && c.Early {
						launchApplier()
					}
				}}
			}
			// the manager's own applier is the one that is fed
			replication.VerifWrapApplier = func(addr string, a replication.WALEntryApplier) replication.WALEntryApplier {
				applier = a
				return a
			}
			if err := mgr.Start(); err != nil {
				if mode != replication.ReplicationModeReplica {
					// a spelling the manager does not know: no replica was started
					res.Probe("unknown_mode_spelling_refused")
					if e.IsReadOnly() {
						res.V = &kit.Violation{Kind: "open-error", Signature: "refused-mode-left-engine-read-only", Detail: fmt.Sprintf("Manager.Start refused mode %q (%v) but left the engine read-only", mode, err)}
					}
					e.Close()
					return
				}
				res.V = &kit.Violation{Kind: "open-error", Signature: "open-error:replication-manager", Detail: err.Error()}
				return
			}
			started = true
			if !e.IsReadOnly() && mode == replication.ReplicationModeReplica {
				fail(&kit.Violation{Kind: "replica-left-writable", Signature: "replica-writable-after-start", Detail: fmt.Sprintf("Manager.Start in replica mode (ForceReadOnly) returned and the engine is not read-only (SetReadOnly(false) calls on the writable engine beforehand: %d)", c.PreWritable)})
				mgr.Stop()
				e.Close()
				return
			}
			if !e.IsReadOnly() {
				// not a replica after all (the spelling meant something else to the manager)
				res.Probe("mode_spelling_not_a_replica")
				mgr.Stop()
				e.Close()
				return
			}
		} else {
			e.SetReadOnly(true) // what Manager.startReplica does before it connects
		}
		stopped := false
		stopManager := func() {
			if started && !stopped {
				stopped = true
				simrt.Note("replication manager stops")
				mgr.Stop()
			}
		}
		if applier == nil {
			applier = replication.NewEngineApplier(e)
		}
		if !c.Conc {
			// alternate: a few replicated entries, then client calls, checking after every call
			ai, ci := 0, 0
			for (ai < len(c.Applied) || ci < len(c.Calls)) && res.V == nil {
				for n := 0; n < 3 && ai < len(c.Applied); n++ {
					applyOne(ai, c.Applied[ai])
					ai++
				}
				for n := 0; n < 4 && ci < len(c.Calls) && res.V == nil; n++ {
					if c.StopAt > 0 && ci >= c.StopAt {
						stopManager()
					}
					doCall(c.Calls[ci], true)
					ci++
				}
			}
		} else {
			launchApplier()
			if c.StopAt > 0 {
				wg.Add(1)
				simrt.GoNamed("shutdown", func() {
					defer wg.Done()
					simrt.Sleep(time.Duration(c.StopAt) * time.Millisecond)
					stopManager()
				})
			}
			per := (len(c.Calls) + c.Clients - 1) / max(c.Clients, 1)
			for ci := 0; ci < c.Clients; ci++ {
				lo, hi := ci*per, min((ci+1)*per, len(c.Calls))
				if lo >= hi {
					continue
				}
				calls := c.Calls[lo:hi]
				wg.Add(1)
				simrt.GoNamed(fmt.Sprintf("client%d", ci), func() {
					defer wg.Done()
					for _, call := range calls {
						if res.V != nil {
							return
						}
						doCall(call, false)
					}
				})
			}
			wg.Wait()
		}
		if res.V == nil {
			if d := kit.EqualState(snapshotState(), m.State(m.Len())); d != "" {
				fail(&kit.Violation{Kind: "replica-data-changed", Signature: "replica-data-differs-from-replicated-operations", Detail: fmt.Sprintf("at the end the replica's data differs from the replicated operations (concurrent=%v): %s", c.Conc, d)})
			}
			if !e.IsReadOnly() {
				fail(&kit.Violation{Kind: "replica-left-writable", Signature: "replica-left-writable", Detail: "the replica engine is not read-only any more"})
			}
		}
		res.Probes["engine_methods_found"] = int64(len(engMethods))
		res.Probes["service_methods_found"] = int64(len(svcMethods))
		res.Probes["mutating_calls"] += int64(mutatingCalls)
		res.Probes["refused_with_read_only_error"] += int64(refused)
		res.Nontrivial = m.Len() >= 1 && mutatingCalls >= 1
		res.Note = fmt.Sprintf("%d replicated entries, %d client calls over %d engine + %d service methods, %d mutating calls, %d refused as read-only, concurrent=%v", len(c.Applied), len(c.Calls), len(engMethods), len(svcMethods), mutatingCalls, refused, c.Conc)
		stopManager()
		if res.V == nil && !e.IsReadOnly() {
			fail(&kit.Violation{Kind: "replica-left-writable", Signature: "replica-left-writable:after-stop", Detail: "stopping replication made the replica engine writable while the node keeps serving clients"})
		}
		reg.GracefulShutdown(context.Background())
		e.Close()
	})
	res.Absorb(out)
	if sim != nil && kit.Verbose {
		res.Trace = sim.TraceLines()
	}
	_ = engine.ErrReadOnlyMode
	return res
}

func TestC16(t *testing.T) {
	kit.Main(t, kit.Spec[RoCase]{
		ID: "C16",
		Gen: func(r *kit.Rand, tier string) RoCase {
			c := RoCase{Sched: kit.GenSched(r, kit.PickOf(r, "conc", "dense")), Knobs: kit.GenKnobs(r), Clients: r.Range(1, 3), Conc: r.Bool(0.5)}
			if r.Bool(0.3) {
				c.StopAt = r.Range(1, 12)
			}
			c.Early = c.Conc && r.Bool(0.5)
			if r.Bool(0.15) {
				c.PreWritable = r.Range(1, 2)
			}
			if r.Bool(0.08) {
				c.Mode = kit.PickOf(r, "Replica", "REPLICA", "replica ", "rePlica", "primary-replica", "slave", "standby")
			}
			c.Sched.MaxVirtS = 3600
			keys := [][]byte{[]byte("rk0"), []byte("rk1"), []byte("rk2"), []byte("replicated-only")}
			var tag uint32
			for i, n := 0, r.Range(1, 14); i < n; i++ {
				tag++
				switch r.Pick(8, 3, 2) {
				case 0:
					c.Applied = append(c.Applied, kit.Op{K: "put", Key: keys[r.Intn(len(keys))], Tag: tag, Len: r.Range(1, 30)})
				case 1:
					c.Applied = append(c.Applied, kit.Op{K: "del", Key: keys[r.Intn(len(keys))]})
				case 2:
					c.Applied = append(c.Applied, kit.Op{K: "merge", Key: keys[r.Intn(len(keys))], Tag: tag, Len: r.Range(1, 30)})
				}
			}
			for i, n := 0, r.Range(2, 24); i < n; i++ {
				c.Calls = append(c.Calls, RoCall{Target: kit.PickOf(r, "engine", "service"), Method: r.Intn(1000), Arg: r.Intn(6)})
			}
			return c
		},
		Run: runC16,
		Shrink: func(c RoCase) []RoCase {
			var out []RoCase
			for i := range c.Calls {
				d := c
				d.Calls = append(append([]RoCall(nil), c.Calls[:i]...), c.Calls[i+1:]...)
				out = append(out, d)
			}
			for i := range c.Applied {
				d := c
				d.Applied = append(append([]kit.Op(nil), c.Applied[:i]...), c.Applied[i+1:]...)
				out = append(out, d)
			}
			return out
		},
		Strip: func(c RoCase) any { d := c; d.Sched = kit.Sched{}; return d },
		Rule:  "a replica engine (read-only flag set, real EngineApplier) receives 1-14 replicated puts/deletes/merges while 2-24 client calls are made to methods picked from the run-time method sets of *engine.EngineFacade and the service server (bypass methods *Internal, Close, SetReadOnly, GetWAL excluded and listed in the evidence), arguments synthesised from the parameter types; either alternating phases with the full-scan fingerprint compared with the model of replicated operations after every client call, or concurrently (applier task + 1-3 client tasks, conc/dense scheduling) with the comparison at the end - this explores the applier's SetReadOnly(false)...SetReadOnly(true) window of merge entries. Calls classified mutating must return a read-only error; GetNodeInfo must report role, primary address and read-only flag of the configuration. The real replication.Manager starts the replica (primary unreachable; the entries are fed to the manager's own applier) and in 30% of the cases is stopped part-way while clients keep calling: the node must stay read-only. In half of the concurrent cases the entries start to arrive as soon as the replica's own loop runs, i.e. possibly before Manager.Start has returned. Batches have one, two or three entries, put-first or delete-first. Every application of a replicated entry must return within 10 virtual seconds (injected stalls not counted) whatever the clients hold open. In 15% of the cases the program calls SetReadOnly(false) on the still writable engine before replication is set up (a no-op). 8% of the cases give the manager another spelling of the mode (Replica, REPLICA, standby, ...): either it refuses to start and leaves the engine writable, or the node is a replica in every respect, node information included. non-trivial = >=1 replicated entry and >=1 mutating call",
	})
}
