package checks

import (
	"encoding/binary"
	"fmt"
	"strings"
	"testing"

	"github.com/KevoDB/kevo/pkg/wal"
	"github.com/KevoDB/kevo/zsim/kit"
	"github.com/KevoDB/kevo/zsim/simos"
	"github.com/KevoDB/kevo/zsim/simrt"
)

// C10 — log damage is contained: exact prefix recovered, nothing fabricated.
// A generated log (through the engine, synchronous logging, 1-3 log files) is
// damaged on the stored image: every truncation offset of the newest file (all
// bytes for small files, else every record boundary +-8 and random offsets) and
// single-byte corruptions of every record header field plus sampled payload
// bytes x 4 value classes. Each image is recovered by the real engine.

type DamageCase struct {
	Sched     kit.Sched `json:"sched"`
	Knobs     kit.Knobs `json:"knobs"`
	Ops       []kit.Op  `json:"ops"`
	Post      []kit.Op  `json:"post"`
	PostCrash bool      `json:"post_crash"`
	PSeed     uint64    `json:"pseed"`
	AllBytes  int       `json:"all_bytes"` // enumerate every offset when the file is at most this long
}

type stepExtent struct {
	file string
	end  int // size of file after the step was acknowledged
}

// parseRecords returns the start offsets of the physical records of a log file.
// entryID identifies a log entry by everything it carries.
func entryID(en *wal.Entry) string {
	return fmt.Sprintf("%d|%d|%d|%s|%s", en.SequenceNumber, en.Type, len(en.Key), en.Key, en.Value)
}

func parseRecords(data []byte) (starts []int, lens []int) {
	off := 0
	for off+7 <= len(data) {
		l := int(binary.LittleEndian.Uint16(data[off+4 : off+6]))
		if off+7+l > len(data) {
			break
		}
		starts = append(starts, off)
		lens = append(lens, 7+l)
		off += 7 + l
	}
	return
}

func newestWAL(fs *simos.FS, node string) (string, int) {
	var best string
	for _, p := range fs.ListRaw(kit.DBDir(node) + "/wal/") {
		if strings.HasSuffix(p, ".wal") && strings.Count(p[len(kit.DBDir(node)+"/wal/"):], "/") == 0 {
			best = p
		}
	}
	if best == "" {
		return "", 0
	}
	d, _ := fs.ReadFileRaw(best)
	return best, len(d)
}

func runC10(t *testing.T, c DamageCase) *kit.Result {
	res := kit.NewResult()
	cfg := c.Sched.Config()
	cfg.Verbose = kit.Verbose
	var sim *simrt.Sim
	out := simrt.Run(t, cfg, func() {
		sim = simrt.S
		fs := kit.NewFS()
		m := kit.NewModel()
		var ext []stepExtent // ext[i-1] for step i
		var openErr error
		kit.OnNode(fs, "n1", "writer", func() {
			e, err := kit.OpenEngine("n1", c.Knobs)
			if err != nil {
				openErr = err
				return
			}
			for _, op := range c.Ops {
				switch op.K {
				case "put", "del", "batch", "txn":
					ws := op.Writes()
					if op.K == "txn" && !op.Commit {
						ws = nil
					}
					r := kit.ExecWrite(e, op)
					if r.Err != nil {
						res.Probe("write_errors")
						continue
					}
					if len(ws) > 0 {
						m.Apply(ws)
						f, n := newestWAL(fs, "n1")
						ext = append(ext, stepExtent{f, n})
					}
				case "flush":
					e.FlushImMemTables()
				}
			}
			e.Close()
		})
		if openErr != nil {
			res.V = &kit.Violation{Kind: "open-error", Signature: "open-error:first", Detail: openErr.Error()}
			return
		}
		simrt.KillTagged("n1", fs.Node("n1").Gen)
		base := fs.Snapshot("n1")
		F, size := newestWAL(fs, "n1")
		if F == "" || size == 0 || m.Len() == 0 {
			res.Note = "no damageable log"
			return
		}
		data, _ := fs.ReadFileRaw(F)
		data = append([]byte(nil), data...)
		// steps before the newest file are in undamaged older files
		older := 0
		for i, x := range ext {
			if x.file != F {
				older = i + 1
			}
		}
		// completeBefore(n) = number of steps wholly stored below offset n of F (plus the older ones)
		completeBefore := func(n int) int {
			k := older
			for i := older; i < len(ext); i++ {
				if ext[i].file == F && ext[i].end <= n {
					k = i + 1
				}
			}
			return k
		}
		stepAt := func(p int) int { // 1-based step whose bytes contain offset p
			for i := older; i < len(ext); i++ {
				if ext[i].file == F && p < ext[i].end {
					return i + 1
				}
			}
			return len(ext)
		}
		prng := kit.NewRand(c.PSeed)
		evals := 0
		fail := func(v *kit.Violation) {
			if res.V == nil {
				res.V = v
			}
		}
		// every entry of the undamaged log directory, as the log's own replay delivers it
		var appended map[string]bool
		kit.OnNode(fs, "n1", "replay-base", func() {
			set := map[string]bool{}
			if _, err := wal.ReplayWALDir(F[:strings.LastIndex(F, "/")], func(en *wal.Entry) error {
				set[entryID(en)] = true
				return nil
			}); err == nil {
				appended = set
			}
		})
		simrt.KillTagged("n1", fs.Node("n1").Gen)
		// recoverImage mounts img, opens the engine and hands the observed state to judge;
		// with post=true it then appends writes, restarts and checks they are all there.
		recoverImage := func(img *simos.Image, what string, post bool, judge func(obs map[string][]byte) *kit.Violation) {
			fs.Mount(img)
			evals++
			var r1 map[string][]byte
			kit.OnNode(fs, "n1", "recover", func() {
				// the other log files, all undamaged
				walDir := F[:strings.LastIndex(F, "/")]
				older := map[string]string{}
				if ents, err := simos.ReadDir(walDir); err == nil {
					for _, en := range ents {
						p := walDir + "/" + en.Name()
						if p != F && strings.HasSuffix(p, ".wal") {
							if b, err := simos.ReadFile(p); err == nil {
								older[p] = string(b)
							}
						}
					}
				}
				// what replaying the damaged directory delivers, entry by entry: nothing
				// that was not appended (type, key, value and sequence number)
				if appended != nil {
					var bad string
					wal.ReplayWALDir(walDir, func(en *wal.Entry) error {
						if bad == "" && !appended[entryID(en)] {
							bad = fmt.Sprintf("type %d key %s value %s sequence %d", en.Type, kit.Q(en.Key), kit.Q(en.Value), en.SequenceNumber)
						}
						return nil
					})
					if bad != "" {
						fail(&kit.Violation{Kind: "replay-fabricated", Signature: "replay-delivers-entry-never-appended:" + strings.SplitN(what, " ", 2)[0], Detail: fmt.Sprintf("%s: replaying the log directory delivers an entry that was never appended: %s", what, bad)})
						return
					}
				}
				e, err := kit.OpenEngine("n1", c.Knobs)
				if err != nil {
					fail(&kit.Violation{Kind: "open-error-after-damage", Signature: "open-error-after-damage:" + strings.SplitN(what, " ", 2)[0], Detail: fmt.Sprintf("%s: %v\nfiles:\n%s", what, err, fs.Snapshot("n1").Describe())})
					return
				}
				for p, content := range older {
					if b, err := simos.ReadFile(p); err != nil || string(b) != content {
						fail(&kit.Violation{Kind: "undamaged-log-discarded", Signature: "undamaged-log-file-discarded", Detail: fmt.Sprintf("%s: the undamaged log file %s is gone or changed after the open (%v)\nfiles:\n%s", what, p, err, fs.Snapshot("n1").Describe())})
						return
					}
				}
				obs, problem, err := kit.Observe(e, m.Keys())
				if err != nil || problem != "" {
					fail(&kit.Violation{Kind: "read-error-after-damage", Signature: "read-error-after-damage", Detail: fmt.Sprintf("%s: %v %s", what, err, problem)})
					return
				}
				if d := kit.EqualState(obs.Scan, obs.Gets); d != "" {
					fail(&kit.Violation{Kind: "scan-get-disagree", Signature: "scan-get-disagree-after-damage", Detail: what + ": " + d})
					return
				}
				if v := judge(obs.Gets); v != nil {
					v.Detail = fmt.Sprintf("%s: %s\nrecovered: %s\nfiles:\n%s", what, v.Detail, kit.DescribeState(obs.Gets), fs.Snapshot("n1").Describe())
					fail(v)
					return
				}
				r1 = obs.Gets
				if !post {
					e.Close()
					return
				}
				// further acknowledged writes must themselves be recoverable
				for _, op := range c.Post {
					if r := kit.ExecWrite(e, op); r.Err != nil {
						fail(&kit.Violation{Kind: "write-error-after-recovery", Signature: "write-error-after-recovery", Detail: fmt.Sprintf("%s: %s: %v", what, op, r.Err)})
						return
					}
					for _, w := range op.Writes() {
						if w.Del {
							delete(r1, string(w.Key))
						} else {
							r1[string(w.Key)] = w.Val
						}
					}
				}
				if !c.PostCrash {
					e.Close()
				}
			})
			simrt.KillTagged("n1", fs.Node("n1").Gen)
			if res.V != nil || !post {
				return
			}
			if c.PostCrash {
				fs.CrashNow("n1")
			}
			fs.Restart("n1")
			kit.OnNode(fs, "n1", "recover2", func() {
				e, err := kit.OpenEngine("n1", c.Knobs)
				if err != nil {
					fail(&kit.Violation{Kind: "open-error-after-damage", Signature: "open-error-second-recovery", Detail: fmt.Sprintf("%s, second recovery: %v", what, err)})
					return
				}
				keys := m.Keys()
				for _, op := range c.Post {
					for _, w := range op.Writes() {
						keys = append(keys, w.Key)
					}
				}
				obs, _, err := kit.Observe(e, keys)
				if err != nil {
					fail(&kit.Violation{Kind: "read-error-after-damage", Signature: "read-error-second-recovery", Detail: err.Error()})
					return
				}
				if d := kit.EqualState(obs.Gets, r1); d != "" {
					fail(&kit.Violation{Kind: "post-recovery-writes-lost", Signature: "post-recovery-writes-not-recovered", Detail: fmt.Sprintf("%s: after %d further acknowledged writes and a restart (crash=%v): %s\nfiles:\n%s", what, len(c.Post), c.PostCrash, d, fs.Snapshot("n1").Describe())})
				}
				e.Close()
			})
			simrt.KillTagged("n1", fs.Node("n1").Gen)
		}

		// ---- truncations
		starts, lens := parseRecords(data)
		offs := map[int]bool{}
		if size <= c.AllBytes {
			for n := 0; n < size; n++ {
				offs[n] = true
			}
		} else {
			// long logs: the first and last few records and a random dozen
			pick := map[int]bool{}
			if len(starts) > 40 {
				for i := 0; i < 4; i++ {
					pick[i], pick[len(starts)-1-i] = true, true
				}
				for i := 0; i < 12; i++ {
					pick[prng.Intn(len(starts))] = true
				}
			}
			for i, s := range starts {
				if len(pick) > 0 && !pick[i] {
					continue
				}
				for d := -8; d <= 8; d++ {
					if n := s + d; n >= 0 && n < size {
						offs[n] = true
					}
					if n := s + lens[i] + d; n >= 0 && n < size {
						offs[n] = true
					}
				}
			}
			for i := 0; i < 64; i++ {
				offs[prng.Intn(size)] = true
			}
		}
		sorted := make([]int, 0, len(offs))
		for n := range offs {
			sorted = append(sorted, n)
		}
		sortInts(sorted)
		postEvery := len(sorted)/8 + 1
		for i, n := range sorted {
			if res.V != nil {
				break
			}
			img := base.Clone()
			img.Truncate(F, n)
			want := completeBefore(n)
			res.Fault("truncation", 1)
			recoverImage(img, fmt.Sprintf("truncation of %s at %d/%d (steps wholly before the cut: %d of %d)", F[strings.LastIndex(F, "/")+1:], n, size, want, m.Len()), i%postEvery == 0, func(obs map[string][]byte) *kit.Violation {
				if _, ok, why := m.MatchPrefix(obs, want, want); !ok {
					sig := "truncation-not-the-exact-prefix"
					if k, ok2, _ := m.MatchPrefix(obs, 0, m.Len()); ok2 {
						if k < want {
							sig = "truncation-lost-complete-entries"
						} else {
							sig = "truncation-recovered-cut-entries"
						}
					} else if _, _, part := m.MatchPartialStep(obs, 1, m.Len()); part {
						sig = "truncation-partial-batch"
					}
					return &kit.Violation{Kind: "truncation", Signature: sig, Detail: "recovered state differs from the state after the undamaged prefix: " + why}
				}
				return nil
			})
		}
		// ---- single-byte corruptions
		var positions []int
		typeByte := map[int]bool{} // damage to a record's type byte re-frames what follows: always followed by further writes and a second recovery
		// at most 18 records: the first and last four and a random ten in between
		chosen := map[int]bool{}
		if len(starts) > 18 {
			for i := 0; i < 4; i++ {
				chosen[i], chosen[len(starts)-1-i] = true, true
			}
			for len(chosen) < 18 {
				chosen[prng.Intn(len(starts))] = true
			}
		}
		for i, s := range starts {
			if len(starts) > 18 && !chosen[i] {
				continue
			}
			typeByte[s+6] = true
			for b := 0; b < 7; b++ {
				positions = append(positions, s+b)
			}
			for j := 0; j < 2 && lens[i] > 7; j++ {
				positions = append(positions, s+7+prng.Intn(lens[i]-7))
			}
		}
		for pi, p := range positions {
			if res.V != nil {
				break
			}
			old := data[p]
			for ci, nv := range []byte{old ^ (1 << uint(prng.Intn(8))), 0x00, 0xff, old + 1} {
				if nv == old || res.V != nil {
					continue
				}
				img := base.Clone()
				img.SetByte(F, p, nv)
				d := stepAt(p) // first damaged step; steps < d are the undamaged prefix
				res.Fault([]string{"corrupt_bitflip", "corrupt_zero", "corrupt_ff", "corrupt_plus1"}[ci], 1)
				recoverImage(img, fmt.Sprintf("corruption of %s byte %d: %#02x -> %#02x (inside step %d of %d)", F[strings.LastIndex(F, "/")+1:], p, old, nv, d, m.Len()), typeByte[p] || (pi%16 == 0 && ci == 0), func(obs map[string][]byte) *kit.Violation {
					for _, k := range m.Keys() {
						got, found := obs[string(k)]
						okv := false
						if w, wf := m.GetAt(d-1, k); wf == found && (!found || string(w) == string(got)) {
							okv = true
						}
						writtenLater := false
						for s := d; s <= m.Len() && !okv; s++ {
							for _, w := range m.Step(s) {
								if string(w.Key) != string(k) {
									continue
								}
								writtenLater = true
								if w.Del && !found || !w.Del && found && string(w.Val) == string(got) {
									okv = true
								}
							}
						}
						if !okv {
							sig := "corruption-fabricated-or-lost"
							if !writtenLater {
								sig = "corruption-changed-undamaged-key"
							}
							want, wf := m.GetAt(d-1, k)
							return &kit.Violation{Kind: "corruption", Signature: sig, Detail: fmt.Sprintf("key %s reads (%s,%v); after the undamaged prefix it is (%s,%v) and no later entry wrote that", kit.Q(k), kit.Q(got), found, kit.Q(want), wf)}
						}
					}
					return nil
				})
			}
		}
		res.Evals = evals
		res.Probes["log_records"] += int64(len(starts))
		if size > 160*1024 {
			res.Probe("logs_longer_than_160KB")
		}
		res.Probes["older_log_files_steps"] += int64(older)
		res.Nontrivial = evals >= 10 && m.Len() >= 2
		res.Note = fmt.Sprintf("%d steps (%d in older files), newest log %d bytes / %d records, %d damaged images recovered", m.Len(), older, size, len(starts), evals)
	})
	res.Absorb(out)
	if sim != nil && kit.Verbose {
		res.Trace = sim.TraceLines()
	}
	return res
}

func sortInts(a []int) {
	for i := 1; i < len(a); i++ {
		for j := i; j > 0 && a[j] < a[j-1]; j-- {
			a[j], a[j-1] = a[j-1], a[j]
		}
	}
}

func TestC10(t *testing.T) {
	kit.Main(t, kit.Spec[DamageCase]{
		ID: "C10",
		Gen: func(r *kit.Rand, tier string) DamageCase {
			c := DamageCase{Sched: kit.GenSched(r, "seq"), Knobs: kit.GenKnobs(r), PSeed: r.Uint64(), PostCrash: r.Bool(0.5), AllBytes: 600}
			if tier == "thorough" {
				c.AllBytes = 4096
			}
			c.Sched.MaxVirtS = 4 * 3600
			c.Knobs.SyncMode = 2
			c.Knobs.MemTableSize = 32 << 20 // rotation only at explicit flushes: step extents stay attributable
			ks := kit.GenKeySpace(r, kit.PickOf(r, 2, 4, 8))
			o := kit.ProgOpts{Keys: ks, MinOps: 1, MaxOps: 14, Big: r.Bool(0.1), WTxn: 12, WBatch: 8, WFlush: 5}
			c.Ops = kit.GenProgram(r, o)
			if r.Bool(0.06) {
				// a long log: recovery's skip-ahead after damage (32 KB at a time)
				// has room to run several times before the end of the file; an
				// older, undamaged log file precedes it
				var tag uint32 = 5000
				for i, n := 0, r.Range(1, 4); i < n; i++ {
					tag++
					c.Ops = append(c.Ops, kit.Op{K: "put", Key: ks.Pick(r), Tag: tag, Len: r.Range(1, 40)})
				}
				c.Ops = append(c.Ops, kit.Op{K: "flush"})
				// value bodies of one repeated byte: wherever a skip-ahead lands
				// inside a value it reads the same plausible-looking header
				fill := kit.PickOf(r, byte(0), 'v', 0x01, 0x20)
				for i, n := 0, r.Range(180, 330); i < n; i++ {
					tag++
					c.Ops = append(c.Ops, kit.Op{K: "put", Key: ks.Pick(r), Tag: tag, Len: r.Range(900, 1100), Fill: fill})
				}
			}
			if r.Bool(0.08) {
				// two or three entries of several fragments each, the later ones at
				// least as long: whatever recovery keeps of a damaged one must not
				// be completed by the fragments of the next
				var tag uint32 = 7000
				n := r.Range(40000, 90000)
				for i, k := 0, r.Range(2, 3); i < k; i++ {
					tag++
					c.Ops = append(c.Ops, kit.Op{K: "put", Key: ks.Pick(r), Tag: tag, Len: n})
					n += r.Range(0, 9000)
					if r.Bool(0.4) {
						tag++
						c.Ops = append(c.Ops, kit.Op{K: "put", Key: ks.Pick(r), Tag: tag, Len: r.Range(1, 40)})
					}
				}
			}
			// end with writes so that the newest file is not empty (sometimes
			// with an entry of several fragments)
			tail := kit.GenProgram(r, kit.ProgOpts{Keys: ks, MinOps: 1, MaxOps: 4, WTxn: 8, WBatch: 8, Big: r.Bool(0.25)})
			for i := range tail {
				tail[i].Tag += 1000
				for j := range tail[i].Sub {
					tail[i].Sub[j].Tag += 1000
				}
			}
			c.Ops = append(c.Ops, tail...)
			post := kit.GenProgram(r, kit.ProgOpts{Keys: ks, MinOps: 1, MaxOps: 5, WTxn: 6})
			for i := range post {
				post[i].Tag += 2000
				for j := range post[i].Sub {
					post[i].Sub[j].Tag += 2000
				}
				if post[i].K == "txn" {
					post[i].Commit = true
				}
			}
			c.Post = post
			return c
		},
		Run: runC10,
		Shrink: func(c DamageCase) []DamageCase {
			var out []DamageCase
			for _, ops := range kit.ShrinkOps(c.Ops) {
				d := c
				d.Ops = ops
				out = append(out, d)
			}
			if len(c.Post) > 1 {
				d := c
				d.Post = c.Post[:len(c.Post)/2]
				out = append(out, d)
			}
			return out
		},
		Strip: func(c DamageCase) any { d := c; d.Sched = kit.Sched{}; return d },
		Rule:  "generated logs (engine, synchronous logging, rotation only at explicit flushes so every step's byte extent in the newest file is known); truncation at every byte (files up to all_bytes) or every record boundary +-8 plus 64 random offsets: the reopened state must be exactly the state after the steps wholly before the cut; single-byte corruption of all 7 header bytes and 2 payload bytes of every record (long logs: of the first and last four records and ten random ones) x {bit flip, 0x00, 0xff, +1}: replaying the damaged directory (wal.ReplayWALDir) delivers only entries that the undamaged directory delivers too (same type, key, value, sequence number), opening succeeds and every key reads its value after the undamaged prefix or a value written by a later entry; after every open the other (undamaged) log files must still be in place, byte for byte; a sample of images then takes 1-5 further acknowledged writes and a clean or crash restart, after which exactly those writes are added. evaluations = damaged images recovered",
	})
}
