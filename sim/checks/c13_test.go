package checks

import (
	"bytes"
	"fmt"
	"testing"
	"time"

	"github.com/KevoDB/kevo/pkg/wal"
	"github.com/KevoDB/kevo/zsim/kit"
	"github.com/KevoDB/kevo/zsim/simnet"
	"github.com/KevoDB/kevo/zsim/simrt"
)

// C13 — a replica applies the primary's log in order, exactly once.
// The cluster of C14 on an adversarial transport: whole stream messages are
// dropped, duplicated and swapped with their predecessor, unary calls fail
// before or after the handler ran, connections are reset, links partition and
// readers stall, all while a single writer executes puts, deletes, batches and
// transactions on a fresh primary (so step i of the reference model carries
// sequence number i). The replica's applier is wrapped by a recorder and the
// oracles run after EVERY entry it applies:
//   - the entry (sequence, type, key, value) is one of the writes of primary
//     step <sequence> (lossless encoding, compression, right numbering);
//   - replaying everything applied so far gives the primary's state after
//     steps 1..k-1 plus a subset of step k's writes for some k (entry-level
//     prefix; a step's writes touch distinct keys) — nothing skipped, nothing
//     re-applied over newer data;
//   - Replica.GetLastAppliedSequence() has not decreased, and every step up to
//     the sequence it reports has been applied in full.
// At the end (faults off, a few seconds of grace) a scan of the replica's
// engine must equal what the recorder says was applied. Convergence itself is
// C14's business; replicas are not restarted here (a restart replays the log
// from sequence 1 by design and passes through older states).

func runC13(t *testing.T, c ReplCase) *kit.Result {
	if c.Unit != nil {
		return runC13Unit(t, c)
	}
	res := kit.NewResult()
	cfg := c.Sched.Config()
	cfg.Verbose = kit.Verbose
	var sim *simrt.Sim
	writes, applies, reapplies, samples := 0, 0, 0, 0
	var ft c14features
	out := simrt.Run(t, cfg, func() {
		sim = simrt.S
		cl := newReplCluster(c.Cfg, c.PK, c.RK, c.NRep, c.Link)
		kit.TagNode(cl.fs, "n1")
		cl.setDiskLatency(c.DiskUs)
		fail := func(kind, sig, detail string) {
			if res.V == nil {
				res.V = &kit.Violation{Kind: kind, Signature: sig, Detail: detail}
				simrt.Note("VIOLATION %s: %s", sig, detail)
			}
		}
		if err := cl.startPrimary(); err != nil {
			fail("open-error", "open-error:primary", err.Error())
			return
		}
		m := kit.NewModel()
		// Each observer (the apply hook, running in the replica's own task, and
		// the prober) compares only its own consecutive samples: a sample is
		// read before the call returns (the read lock's release is a
		// scheduling point), so samples of different tasks are not ordered.
		checkReported := func(rn *replicaNode, last *uint64, when string) {
			if rn.rep == nil {
				return // Manager.Start has not returned yet: the replica object is not known to the harness
			}
			samples++
			rep := rn.rep.GetLastAppliedSequence()
			if kit.Verbose && rep != *last {
				simrt.Note("%s reports %d (was %d) %s", rn.name, rep, *last, when)
			}
			if rep < *last {
				fail("reported-sequence-decreased", "reported-sequence-decreased", fmt.Sprintf("replica %s: GetLastAppliedSequence() went from %d to %d (%s)", rn.name, *last, rep, when))
				return
			}
			*last = rep
			if rep == 0 {
				return
			}
			if int(rep) > m.Len() {
				fail("reported-sequence-ahead", "reported-sequence-ahead:beyond-primary", fmt.Sprintf("replica %s reports applied sequence %d, the primary has executed %d write steps (%s)", rn.name, rep, m.Len(), when))
				return
			}
			// every step up to the reported sequence has been applied in full
			// (bestK: the most that the applied entries ever amounted to)
			if int(rep) > rn.bestK {
				fail("reported-sequence-ahead", "reported-sequence-ahead:of-applied", fmt.Sprintf("replica %s reports applied sequence %d but what it has applied so far never amounted to more than the primary's steps 1..%d (%s)", rn.name, rep, rn.bestK, when))
			}
		}
		proberLast := make([]uint64, c.NRep)
		cl.onApply = func(rn *replicaNode, a *recApplied) {
			if res.V != nil {
				return
			}
			applies++
			if a.Err != nil {
				res.Probe("replica_apply_error")
				return
			}
			// (1) the entry is one of the writes of step a.Seq
			if a.Seq == 0 || int(a.Seq) > m.Len() {
				fail("applied-unknown-entry", "applied-unknown-entry:sequence", fmt.Sprintf("replica %s applied an entry with sequence %d; the primary has executed steps 1..%d", rn.name, a.Seq, m.Len()))
				return
			}
			found := false
			for _, w := range m.Step(int(a.Seq)) {
				if !bytes.Equal(w.Key, a.Key) {
					continue
				}
				if w.Del && a.Type == wal.OpTypeDelete {
					found = true
				}
				wv := w.Val
				if wv == nil {
					wv = []byte{}
				}
				if !w.Del && a.Type == wal.OpTypePut && bytes.Equal(wv, a.Val) {
					found = true
				}
			}
			if !found {
				fail("applied-wrong-entry", "applied-wrong-entry", fmt.Sprintf("replica %s applied seq=%d type=%d key=%s value=%s, which is not a write of the primary's step %d (%d writes)", rn.name, a.Seq, a.Type, kit.Q(a.Key), kit.Q(a.Val), a.Seq, len(m.Step(int(a.Seq)))))
				return
			}
			// (2) entry-level prefix
			k, partial, ok := entryPrefixMatch(m, rn.rec.model)
			if !ok {
				var hist []string
				lo := len(rn.rec.log) - 12
				if lo < 0 {
					lo = 0
				}
				for _, e := range rn.rec.log[lo:] {
					hist = append(hist, fmt.Sprintf("seq%d:%s", e.Seq, kit.Q(e.Key)))
				}
				fail("replica-state-not-a-prefix", "replica-state-not-a-prefix", fmt.Sprintf("after replica %s applied seq=%d key=%s, its data is not the primary's data after any prefix of the %d steps: %s\nlast applied: %v", rn.name, a.Seq, kit.Q(a.Key), m.Len(), kit.EqualState(rn.rec.model, m.State(m.Len())), hist))
				return
			}
			full := k
			if partial {
				full = k - 1
			}
			if full < rn.bestK {
				reapplies++
				if kit.Verbose {
					simrt.Note("STEPBACK %s after seq=%d key=%s: now amounts to %d full steps (partial=%v), best so far %d", rn.name, a.Seq, kit.Q(a.Key), full, partial, rn.bestK)
				}
			} else {
				rn.bestK = full
			}
			// (3) the reported sequence
			checkReported(rn, &rn.lastReported, "sampled after an apply")
		}
		// prober: the reported sequence between applies
		stop := false
		simrt.GoNamed("prober", func() {
			for !stop && res.V == nil {
				simrt.Sleep(37 * time.Millisecond)
				for i, rn := range cl.replicas {
					if rn.running && rn.rep != nil {
						checkReported(rn, &proberLast[i], "sampled by the prober")
					}
				}
			}
		})
		for si, ev := range c.Script {
			if res.V != nil {
				break
			}
			switch ev.K {
			case "op":
				op := *ev.Op
				switch op.K {
				case "put", "del", "batch", "txn":
					if op.K == "txn" && (!op.Commit || op.RO) {
						kit.ExecWrite(cl.pe, op)
						continue
					}
					ws := op.Writes()
					if len(ws) > 0 {
						// the model learns the step before the primary executes it:
						// the push reaches a replica from inside the call
						m.Apply(ws)
					}
					r := kit.ExecWrite(cl.pe, op)
					if r.Err != nil {
						// the numbering assumption (step i = sequence i) is gone
						res.Probe("primary_write_failed")
						res.Inconclusive = true
						stop = true
						return
					}
					if len(ws) > 0 {
						writes++
						if op.K == "txn" {
							ft.txns++
						}
						if op.K == "batch" {
							ft.batches++
						}
					}
				case "flush":
					cl.pe.FlushImMemTables()
					ft.flushes++
				case "compact":
					cl.pe.TriggerCompaction()
				case "get":
					cl.pe.Get(op.Key)
				}
			case "sleep":
				simrt.Sleep(time.Duration(ev.D) * time.Millisecond)
			case "join":
				rn := cl.replicas[ev.R]
				if rn.running {
					continue
				}
				if err := cl.startReplica(ev.R); err != nil {
					fail("open-error", "open-error:replica", err.Error())
				}
			case "reset":
				if cl.replicas[ev.R].link.ResetConns("connection reset by fault injection") > 0 {
					ft.resets++
				}
			case "down":
				cl.replicas[ev.R].link.SetDown(true)
				res.Fault("net_partition", 1)
			case "up":
				cl.replicas[ev.R].link.SetDown(false)
			case "stall":
				cl.replicas[ev.R].link.SetStallRecv(true)
				res.Fault("net_reader_stalled", 1)
			case "unstall":
				cl.replicas[ev.R].link.SetStallRecv(false)
			}
			_ = si
		}
		if res.V != nil {
			stop = true
			return
		}
		// faults off, grace period
		for i, rn := range cl.replicas {
			rn.link.SetDown(false)
			rn.link.SetStallRecv(false)
			rn.link.Cfg.DropP, rn.link.Cfg.DupP, rn.link.Cfg.ReorderP, rn.link.Cfg.RPCFailP = 0, 0, 0, 0
			if !rn.running {
				if err := cl.startReplica(i); err != nil {
					fail("open-error", "open-error:replica-late", err.Error())
					return
				}
			}
		}
		simrt.Sleep(time.Duration(c.SettleS) * time.Second)
		stop = true
		if res.V != nil {
			return
		}
		for i, rn := range cl.replicas {
			// stop the state machine, then compare the engine with the recorder
			if cl.stopReplicaKeepEngine(i) {
				fail("replica-stop-stuck", "replica-stop-stuck", "the replica's orderly stop did not return")
				return
			}
			rs, err := scanState(rn.e)
			if err != nil {
				fail("replica-error", "replica-error:scan", err.Error())
				return
			}
			if d := kit.EqualState(rs, rn.rec.model); d != "" {
				fail("engine-differs-from-applied", "engine-differs-from-applied", fmt.Sprintf("replica %s: a scan of its engine differs from the replay of the %d entries its applier was handed: %s", rn.name, len(rn.rec.log), d))
				return
			}
			if k, _, ok := entryPrefixMatch(m, rs); ok && k == m.Len() {
				res.Probe("replica_caught_up_at_end")
			}
		}
		netFaults(res, cl.net)
		for i := range cl.replicas {
			cl.crashReplica(i)
		}
		cl.stopPrimary()
	})
	res.Absorb(out)
	if sim != nil && kit.Verbose {
		res.Trace = sim.TraceLines()
	}
	res.Probes["write_steps"] += int64(writes)
	res.Probes["entries_applied_on_replicas"] += int64(applies)
	res.Probes["applies_that_stepped_back_to_an_older_prefix"] += int64(reapplies)
	res.Probes["reported_sequence_samples"] += int64(samples)
	res.Probes["transactions_replicated"] += int64(ft.txns)
	res.Probes["batches_replicated"] += int64(ft.batches)
	res.Nontrivial = writes >= 2 && applies >= 2 && res.V == nil
	res.Note = fmt.Sprintf("%d replicas, %d write steps, %d applies", c.NRep, writes, applies)
	return res
}

func TestC13(t *testing.T) {
	kit.Main(t, kit.Spec[ReplCase]{
		ID: "C13",
		Gen: func(r *kit.Rand, tier string) ReplCase {
			if r.Bool(0.2) {
				u := ReplCase{Sched: kit.GenSched(r, "seq"), RK: kit.GenKnobs(r), NRep: 1, Unit: genUnitScript(r)}
				u.RK.MemTableSize = kit.PickOf(r, int64(1024), 16384, 32<<20)
				return u
			}
			c := ReplCase{Sched: kit.GenSched(r, "net"), PK: kit.GenKnobs(r), RK: kit.GenKnobs(r), Cfg: genReplCfg(r), Link: genLink(r), NRep: r.Pick(5, 2) + 1, SettleS: int64(kit.PickOf(r, 2, 5, 12))}
			c.Sched.MaxVirtS = 24 * 3600
			c.Sched.MaxSteps = 6_000_000
			c.PK.MemTableSize = kit.PickOf(r, int64(512), 2048, 16384, 32<<20)
			c.RK.MemTableSize = kit.PickOf(r, int64(1024), 16384, 32<<20)
			c.PK.CompactionInterval, c.RK.CompactionInterval = 5, 5
			if r.Bool(0.75) {
				// adversarial delivery
				c.Link.DropP = kit.PickOf(r, 0, 0.05, 0.2)
				c.Link.DupP = kit.PickOf(r, 0, 0.05, 0.3)
				c.Link.ReorderP = kit.PickOf(r, 0, 0.1, 0.4)
				c.Link.RPCFailP = kit.PickOf(r, 0, 0.1, 0.3)
			}
			script := genReplScript(r, c.NRep, tier, r.Bool(0.7))
			c.DiskUs = kit.PickOf(r, 0, 0, 50, 300, 1000)
			// no restarts or kills here (see the header)
			for _, e := range script {
				if e.K == "restart" || e.K == "crash" {
					e.K = "reset"
				}
				c.Script = append(c.Script, e)
			}
			return c
		},
		Run: runC13,
		Shrink: func(c ReplCase) []ReplCase {
			var out []ReplCase
			if c.Unit != nil {
				for _, u := range shrinkUnit(c.Unit) {
					d := c
					d.Unit = u
					out = append(out, d)
				}
				return out
			}
			for _, s := range shrinkScript(c.Script) {
				d := c
				d.Script = s
				out = append(out, d)
			}
			if c.NRep > 1 {
				d := c
				d.NRep = 1
				d.Script = nil
				for _, e := range c.Script {
					if e.K == "op" || e.K == "sleep" || e.R == 0 {
						d.Script = append(d.Script, e)
					}
				}
				out = append(out, d)
			}
			for _, f := range []func(*simnet.LinkCfg){
				func(l *simnet.LinkCfg) { l.DropP = 0 }, func(l *simnet.LinkCfg) { l.DupP = 0 },
				func(l *simnet.LinkCfg) { l.ReorderP = 0 }, func(l *simnet.LinkCfg) { l.RPCFailP = 0 },
			} {
				d := c
				f(&d.Link)
				if d.Link != c.Link {
					out = append(out, d)
				}
			}
			if c.Cfg.Compress != 0 || c.Cfg.RCompress != 0 {
				d := c
				d.Cfg.Compress, d.Cfg.RCompress = 0, 0
				out = append(out, d)
			}
			return out
		},
		Strip: func(c ReplCase) any { d := c; d.Sched = kit.Sched{}; return d },
		Rule:  "C14's workload and cluster (1-2 replicas, no restarts) on an adversarial transport: in 75% of cases whole stream messages are dropped (p 0-0.2), duplicated (0-0.3), swapped with their predecessor (0-0.4) and unary calls fail before/after the handler (0-0.3); plus connection resets, partitions and stalled readers between steps; oracles after every applied entry: the entry is a write of primary step <its sequence>; the replay of all applied entries is an entry-level prefix state of the primary's history; GetLastAppliedSequence() never decreased and does not exceed the steps applied in full (also sampled every 37 ms); at the end the replica engine's scan equals the replay of what its applier was handed. non-trivial = >=2 write steps and >=2 entries applied on a replica. One case in five drives the replica's receiving side alone: a real Replica (batch applier, decompression, gap handling, EngineApplier, engine) is handed 2-25 arbitrary responses - slices of a 2-30 step log cut at sequence boundaries, ahead of / behind / overlapping the cursor, duplicated, really compressed, through the streaming or the waiting path, with an apply error injected at some entry - same oracles, plus: a negative acknowledgement never asks for more than the replica lacks",
	})
}
