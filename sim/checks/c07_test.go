package checks

import (
	"context"
	"fmt"
	"strings"
	"sync/atomic"
	"testing"
	"time"

	"github.com/KevoDB/kevo/pkg/transaction"
	"github.com/KevoDB/kevo/pkg/wal"
	"github.com/KevoDB/kevo/zsim/kit"
	"github.com/KevoDB/kevo/zsim/simrt"
	"github.com/KevoDB/kevo/zsim/simsync"
)

// C07 — concurrent use never races, crashes or hangs the process.
// Built with -race. Client tasks call every public entry point of an open
// engine (reads, writes, deletes, deletion checks, iterators, batches,
// transactions, explicit flush, compaction, range compaction, statistics)
// while the background maintenance runs. Baton hand-offs are hidden from
// ThreadSanitizer (RaceDisable + //go:norace on the simulator), so it judges
// kevo's own synchronisation only: an unsynchronised pair of accesses is
// reported even though the two tasks ran strictly one after the other.
// Monitored: race reports, panics, simulator-level deadlock, and "every call
// returns" within 120 virtual seconds (injected stalls not counted).

type ConcCase struct {
	Sched   kit.Sched  `json:"sched"`
	Knobs   kit.Knobs  `json:"knobs"`
	Clients [][]string `json:"clients"`
	NKeys   int        `json:"nkeys"`
	PSeed   uint64     `json:"pseed"`
}

var concOps = []string{"put", "put", "get", "get", "del", "isdel", "scan", "range", "batch", "txn", "rotxn", "flush", "compact", "crange", "stats", "cstats", "sleep", "regro", "regro", "regrw"}

func runC07(t *testing.T, c ConcCase) *kit.Result {
	res := kit.NewResult()
	cfg := c.Sched.Config()
	cfg.Verbose = kit.Verbose
	cfg.MaxVirtual = 0 // set below through the watchdog
	cfg.SpinLimit = 400_000
	kit.RaceLogDelta()
	var sim *simrt.Sim
	calls := 0
	stuck := ""
	var current []atomic.Pointer[string]
	out := simrt.Run(t, cfg, func() {
		sim = simrt.S
		fs := kit.NewFS()
		kit.TagNode(fs, "n1")
		e, err := kit.OpenEngine("n1", c.Knobs)
		if err != nil {
			res.V = &kit.Violation{Kind: "open-error", Signature: "open-error:first", Detail: err.Error()}
			return
		}
		key := func(i int) []byte { return []byte(fmt.Sprintf("ck%02d", i)) }
		// the transaction registry the gRPC service keeps its handles in: its
		// handlers run concurrently, one goroutine per request
		reg := transaction.NewRegistryWithTTL(5*time.Minute, 2*time.Minute, 75, 90)
		var wg simsync.WaitGroup
		// shared between the clients and the watchdog: real atomics, so that the
		// harness itself is race-free in ThreadSanitizer's eyes
		counts := make([]atomic.Int64, len(c.Clients))
		current = make([]atomic.Pointer[string], len(c.Clients))
		var done atomic.Bool
		for ci, ops := range c.Clients {
			ci, ops := ci, ops
			wg.Add(1)
			simrt.GoNamed(fmt.Sprintf("client%d", ci), func() {
				defer wg.Done()
				rr := kit.NewRand(c.PSeed + uint64(ci)*101)
				// what calls returned belongs to the caller: it is looked at again
				// later (a monitoring loop formats the statistics it fetched, a reader
				// keeps the value it got), while other calls are in progress
				var kept []any
				look := func() {
					for _, x := range kept {
						_ = fmt.Sprint(x)
					}
					if len(kept) > 4 {
						kept = kept[len(kept)-4:]
					}
				}
				for oi, op := range ops {
					look()
					opName := op
					current[ci].Store(&opName)
					k := key(rr.Intn(c.NKeys))
					val := kit.MakeValue(uint32(ci*1000+oi+1), rr.Range(1, 200))
					switch op {
					case "put":
						e.Put(k, val)
					case "get":
						if v, err := e.Get(k); err == nil {
							kept = append(kept, v)
						}
					case "del":
						e.Delete(k)
					case "isdel":
						e.IsDeleted(k)
					case "scan":
						if it, err := e.GetIterator(); err == nil {
							n := 0
							for it.SeekToFirst(); it.Valid() && n < 10000; it.Next() {
								_ = it.Key()
								_ = it.Value()
								n++
							}
						}
					case "range":
						if it, err := e.GetRangeIterator(key(0), key(c.NKeys)); err == nil {
							n := 0
							for it.SeekToFirst(); it.Valid() && n < 10000; it.Next() {
								n++
							}
							it.Seek(k)
						}
					case "batch":
						e.ApplyBatch([]*wal.Entry{{Type: wal.OpTypePut, Key: k, Value: val}, {Type: wal.OpTypeDelete, Key: key(rr.Intn(c.NKeys))}})
					case "txn":
						if tx, err := e.BeginTransaction(false); err == nil {
							tx.Get(k)
							tx.Put(k, val)
							it := tx.NewIterator()
							it.SeekToFirst()
							if rr.Bool(0.8) {
								tx.Commit()
							} else {
								tx.Rollback()
							}
						}
					case "rotxn":
						if tx, err := e.BeginTransaction(true); err == nil {
							tx.Get(k)
							it := tx.NewRangeIterator(key(0), k)
							for it.SeekToFirst(); it.Valid(); it.Next() {
							}
							tx.Commit()
						}
					case "regro", "regrw":
						ctx := context.WithValue(context.Background(), "peer", fmt.Sprintf("conn%d", ci))
						if id, err := reg.Begin(ctx, e, op == "regro"); err == nil {
							if tx, ok := reg.Get(id); ok {
								tx.Get(k)
								if op == "regrw" {
									tx.Put(k, val)
								}
								tx.Commit()
							}
							reg.Remove(id)
						}
					case "flush":
						e.FlushImMemTables()
					case "compact":
						e.TriggerCompaction()
					case "crange":
						e.CompactRange(key(0), k)
					case "stats":
						kept = append(kept, e.GetStats())
					case "cstats":
						if st, err := e.GetCompactionStats(); err == nil {
							kept = append(kept, st)
						}
					case "sleep":
						simrt.Sleep(time.Duration(rr.Range(1, 1500)) * time.Millisecond)
					}
					counts[ci].Add(1)
				}
				current[ci].Store(nil)
			})
		}
		// watchdog: every call returns
		simrt.GoNamed("waiter", func() {
			wg.Wait()
			done.Store(true)
		})
		start := simrt.NowUnstalled()
		last, lastProgress := -1, start
		for !done.Load() {
			simrt.Sleep(time.Second)
			total := 0
			for i := range counts {
				total += int(counts[i].Load())
			}
			now := simrt.NowUnstalled()
			if total != last {
				last, lastProgress = total, now
			} else if time.Duration(now-lastProgress) > 120*time.Second {
				var b strings.Builder
				for ci := range current {
					if op := current[ci].Load(); op != nil {
						fmt.Fprintf(&b, "client %d is inside %s; ", ci, *op)
					}
				}
				stuck = b.String() + "\n" + simrt.Describe()
				return
			}
		}
		for i := range counts {
			calls += int(counts[i].Load())
		}
		e.Close()
	})
	if out.Livelock && out.Panic == "" {
		var b strings.Builder
		for ci := range current {
			if op := current[ci].Load(); op != nil {
				fmt.Fprintf(&b, "client %d is inside %s; ", ci, *op)
			}
		}
		res.V = &kit.Violation{Kind: "call-never-returns", Signature: "call-never-returns:" + firstStuckOp(b.String()) + ":spinning", Detail: b.String() + "\n" + out.Detail}
	}
	res.Absorb(out)
	if sim != nil && kit.Verbose {
		res.Trace = sim.TraceLines()
	}
	if res.V == nil && stuck != "" {
		res.V = &kit.Violation{Kind: "call-never-returns", Signature: "call-never-returns:" + firstStuckOp(stuck), Detail: "no call completed for 120 virtual seconds: " + stuck}
	}
	if report := kit.RaceLogDelta(); report != "" {
		// a race outranks whatever else happened in the run
		res.V = &kit.Violation{Kind: "data-race", Signature: kit.RaceSignature(report), Detail: clipReport(report)}
		res.Probes["race_reports"] += int64(strings.Count(report, "WARNING: DATA RACE"))
	}
	res.Probes["api_calls"] += int64(calls)
	if !simrt.RaceEnabled {
		res.Probes["built_without_race_detector"]++
	}
	res.Nontrivial = len(c.Clients) >= 2 && calls >= 4
	res.Note = fmt.Sprintf("%d clients, %d API calls completed, race detector on=%v", len(c.Clients), calls, simrt.RaceEnabled)
	return res
}

func firstStuckOp(s string) string {
	if i := strings.Index(s, "is inside "); i >= 0 {
		rest := s[i+len("is inside "):]
		if j := strings.IndexAny(rest, "; "); j > 0 {
			return rest[:j]
		}
	}
	return "unknown"
}

func clipReport(r string) string {
	// keep the first report in full, mention the rest
	parts := strings.Split(r, "==================\n")
	first := ""
	n := 0
	for _, p := range parts {
		if strings.Contains(p, "DATA RACE") {
			n++
			if first == "" {
				first = p
			}
		}
	}
	if len(first) > 3500 {
		first = first[:3500] + "…"
	}
	return fmt.Sprintf("%s(%d race reports in this run)", first, n)
}

func TestC07(t *testing.T) {
	kit.Main(t, kit.Spec[ConcCase]{
		ID: "C07",
		Gen: func(r *kit.Rand, tier string) ConcCase {
			c := ConcCase{Sched: kit.GenSched(r, kit.PickOf(r, "conc", "conc", "dense")), Knobs: kit.GenKnobs(r), NKeys: r.Range(2, 10), PSeed: r.Uint64()}
			c.Knobs.DiskUs = kit.PickOf(r, 0, 100, 1000, 5000) // calls take virtual time: they overlap with timers and each other
			c.Sched.MaxVirtS = 24 * 3600
			c.Knobs.MemTableSize = kit.PickOf(r, int64(256), 512, 1024, 4096, 65536)
			c.Knobs.CompactionInterval = kit.PickOf(r, int64(1), 1, 2)
			if r.Bool(0.4) {
				c.Sched.TimePassP = kit.PickOf(r, 0.002, 0.01)
			}
			nc := r.Range(2, 6)
			for i := 0; i < nc; i++ {
				var ops []string
				for j, n := 0, r.Range(2, 16); j < n; j++ {
					ops = append(ops, concOps[r.Intn(len(concOps))])
				}
				c.Clients = append(c.Clients, ops)
			}
			return c
		},
		Run: runC07,
		Shrink: func(c ConcCase) []ConcCase {
			var out []ConcCase
			if len(c.Clients) > 2 {
				for i := range c.Clients {
					d := c
					d.Clients = append(append([][]string(nil), c.Clients[:i]...), c.Clients[i+1:]...)
					out = append(out, d)
				}
			}
			for i, ops := range c.Clients {
				if len(ops) > 1 {
					d := c
					d.Clients = append([][]string(nil), c.Clients...)
					d.Clients[i] = ops[:len(ops)/2]
					out = append(out, d)
					d2 := c
					d2.Clients = append([][]string(nil), c.Clients...)
					d2.Clients[i] = ops[len(ops)/2:]
					out = append(out, d2)
				}
			}
			return out
		},
		Strip: func(c ConcCase) any { d := c; d.Sched = kit.Sched{}; return d },
		Rule:  "2-6 client tasks, each 2-16 calls drawn from {Put, Get, Delete, IsDeleted, full scan, range scan + Seek, ApplyBatch, read-write transaction (get/put/iterator/commit or rollback), read-only transaction (get/range iterator), FlushImMemTables, TriggerCompaction, CompactRange, GetStats, GetCompactionStats, registry begin/get/put/commit/remove by handle (read-only and read-write), pause} on 2-10 keys, memtables of 256B-64KB, compaction every 1-2 s, conc/dense seeded scheduling, optional stalls; binary built with -race; a run is a violation if ThreadSanitizer reports a race (signature = innermost kevo function of each of the two stacks), a task panics, the simulator finds nothing runnable with calls outstanding, no call completes for 120 unstalled virtual seconds, or 400000 scheduling steps are taken in a row without the virtual clock moving (a call that spins). What Get, GetStats and GetCompactionStats returned is kept by the client and looked at again (formatted) before each of its next calls, so that a result which kevo goes on writing to is a reported race. non-trivial = >=2 clients and >=4 completed calls",
	})
}
