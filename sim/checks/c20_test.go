package checks

import (
	"encoding/json"
	"fmt"
	"reflect"
	"strings"
	"testing"

	"github.com/KevoDB/kevo/pkg/config"
	"github.com/KevoDB/kevo/pkg/engine"
	"github.com/KevoDB/kevo/zsim/kit"
	"github.com/KevoDB/kevo/zsim/simos"
	"github.com/KevoDB/kevo/zsim/simrt"
)

// C20 — configuration is validated and persists with the database.
// What simulation decides here: the manifest's way through the simulated disk
// (save, crash at every I/O point of creation, reopen N times, every truncation
// and sampled corruption of the stored manifest on a database that holds data).
// The field-by-field validity boundaries are a pure function; they are
// exercised by generated assignments in the same programme (plain input
// generation, said so in the evidence).

type CfgCase struct {
	Sched   kit.Sched          `json:"sched"`
	Fields  map[string]float64 `json:"fields"` // overrides of numeric fields (by JSON name)
	Strings map[string]string  `json:"strings,omitempty"`
	Reopens int                `json:"reopens"`
	Writes  int                `json:"writes"`
	PSeed   uint64             `json:"pseed"`
}

// documented constraints (docs/config.md: "comprehensive validation of all
// parameters"; the conditions are those of the Validation section of the code
// documentation): positive sizes and counts, a ratio above 1, thresholds
// 0 < warning < critical < 100, non-empty directories, positive version.
func cfgValid(c *config.Config) bool {
	return c.Version > 0 && c.WALDir != "" && c.SSTDir != "" && c.MemTableSize > 0 && c.MaxMemTables > 0 &&
		c.SSTableBlockSize > 0 && c.SSTableIndexSize > 0 && c.CompactionLevels > 0 && c.CompactionRatio > 1.0 &&
		c.ReadOnlyTxTTL > 0 && c.ReadWriteTxTTL > 0 && c.IdleTxTimeout > 0 && c.TxCleanupInterval > 0 &&
		c.TxWarningThreshold > 0 && c.TxWarningThreshold < 100 && c.TxCriticalThreshold > c.TxWarningThreshold && c.TxCriticalThreshold < 100
}

func buildCfg(c CfgCase, dir string) *config.Config {
	cfg := config.NewDefaultConfig(dir)
	// apply overrides through JSON so that field names are the stored ones
	b, _ := json.Marshal(cfg)
	var m map[string]any
	json.Unmarshal(b, &m)
	for k, v := range c.Fields {
		m[k] = v
	}
	for k, v := range c.Strings {
		m[k] = v
	}
	b, _ = json.Marshal(m)
	out := config.NewDefaultConfig(dir)
	json.Unmarshal(b, out)
	return out
}

func cfgEqual(a, b *config.Config) string {
	ja, _ := json.Marshal(a)
	jb, _ := json.Marshal(b)
	if string(ja) == string(jb) {
		return ""
	}
	var ma, mb map[string]any
	json.Unmarshal(ja, &ma)
	json.Unmarshal(jb, &mb)
	for k, v := range ma {
		if !reflect.DeepEqual(v, mb[k]) {
			return fmt.Sprintf("field %s: stored %v, loaded %v", k, v, mb[k])
		}
	}
	return "configurations differ"
}

func runC20(t *testing.T, c CfgCase) *kit.Result {
	res := kit.NewResult()
	cfg := c.Sched.Config()
	cfg.Verbose = kit.Verbose
	var sim *simrt.Sim
	out := simrt.Run(t, cfg, func() {
		sim = simrt.S
		fs := kit.NewFS()
		dir := kit.DBDir("n1")
		fail := func(v *kit.Violation) {
			if res.V == nil {
				res.V = v
			}
		}
		want := buildCfg(c, dir)
		valid := cfgValid(want)
		evals := 0

		// ---- save: rejected before anything is written, or stored and loaded back unchanged
		var snaps []ioSnap
		node := fs.Node("n1")
		node.BeforePoint = func(n *simos.Node, idx int64, op *simos.Op) {
			cp := *op
			cp.Data = append([]byte(nil), op.Data...)
			snaps = append(snaps, ioSnap{idx: idx, img: fs.Snapshot("n1"), op: cp})
		}
		before := fs.Snapshot("n1").Hash()
		var saveErr error
		kit.OnNode(fs, "n1", "save", func() { saveErr = want.SaveManifest(dir) })
		node.BeforePoint = nil
		evals++
		if !valid {
			if saveErr == nil {
				fail(&kit.Violation{Kind: "invalid-config-accepted", Signature: "invalid-config-stored", Detail: fmt.Sprintf("SaveManifest accepted a configuration that violates a documented constraint: fields %v %v", c.Fields, c.Strings)})
				return
			}
			if fs.Snapshot("n1").Hash() != before {
				fail(&kit.Violation{Kind: "invalid-config-accepted", Signature: "invalid-config-wrote-something", Detail: fmt.Sprintf("SaveManifest rejected the configuration (%v) but the disk changed:\n%s", saveErr, fs.Snapshot("n1").Describe())})
			}
			res.Probe("invalid_configs_rejected")
			res.Nontrivial = true
			res.Evals = evals
			res.Note = "invalid configuration rejected before anything was written"
			return
		}
		if saveErr != nil {
			fail(&kit.Violation{Kind: "valid-config-rejected", Signature: "valid-config-rejected", Detail: fmt.Sprintf("SaveManifest rejected a valid configuration: %v (fields %v)", saveErr, c.Fields)})
			return
		}
		kit.OnNode(fs, "n1", "load", func() {
			got, err := config.LoadConfigFromManifest(dir)
			if err != nil {
				fail(&kit.Violation{Kind: "config-roundtrip", Signature: "stored-config-does-not-load", Detail: err.Error()})
				return
			}
			if d := cfgEqual(want, got); d != "" {
				fail(&kit.Violation{Kind: "config-roundtrip", Signature: "stored-config-loads-differently", Detail: d})
			}
		})
		if res.V != nil {
			return
		}
		saved := fs.Snapshot("n1")

		// ---- process death at every I/O point of the creation: the next open must work
		// and end up with either the saved or (nothing stored yet) a fresh configuration
		for si := range snaps {
			for _, after := range []bool{false, true} {
				img := snaps[si].img.Clone()
				if after {
					img.ApplyOp(&snaps[si].op, -1)
				}
				fs.Mount(img)
				evals++
				res.Fault("proc_crash_image", 1)
				kit.OnNode(fs, "n1", "reopen-after-crash", func() {
					_, hasManifest := fs.ReadFileRaw(dir + "/MANIFEST")
					e, err := engine.NewEngineFacade(dir)
					if err != nil {
						fail(&kit.Violation{Kind: "open-error", Signature: "open-error-after-crash-in-creation", Detail: fmt.Sprintf("process died at I/O point %d (%s %s, after=%v) of SaveManifest; opening then fails: %v", snaps[si].idx, simos.OpNames[snaps[si].op.Kind], snaps[si].op.Path, after, err)})
						return
					}
					e.Close()
					got, err := config.LoadConfigFromManifest(dir)
					if err != nil {
						fail(&kit.Violation{Kind: "config-roundtrip", Signature: "no-config-after-open", Detail: err.Error()})
						return
					}
					if hasManifest {
						if d := cfgEqual(want, got); d != "" {
							fail(&kit.Violation{Kind: "config-changed", Signature: "config-changed-by-open", Detail: "a manifest existed, but after the open " + d})
						}
					}
				})
				simrt.KillTagged("n1", fs.Node("n1").Gen)
				if res.V != nil {
					return
				}
			}
		}

		// ---- a database with data, reopened N times, keeps its configuration
		fs.Mount(saved)
		m := kit.NewModel()
		kit.OnNode(fs, "n1", "use", func() {
			manifest0, _ := fs.ReadFileRaw(dir + "/MANIFEST")
			manifest0 = append([]byte(nil), manifest0...)
			for round := 0; round <= c.Reopens; round++ {
				e, err := engine.NewEngineFacade(dir)
				if err != nil {
					fail(&kit.Violation{Kind: "open-error", Signature: "open-error:reopen", Detail: err.Error()})
					return
				}
				for w := 0; w < c.Writes; w++ {
					k := []byte(fmt.Sprintf("cfg/%d/%d", round, w))
					v := kit.MakeValue(uint32(round*100+w+1), 20)
					if err := e.Put(k, v); err == nil {
						m.Apply([]kit.W{{Key: k, Val: v}})
					}
				}
				e.Close()
				got, err := config.LoadConfigFromManifest(dir)
				if err != nil {
					fail(&kit.Violation{Kind: "config-roundtrip", Signature: "stored-config-does-not-load", Detail: fmt.Sprintf("after %d opens: %v", round+1, err)})
					return
				}
				if d := cfgEqual(want, got); d != "" {
					fail(&kit.Violation{Kind: "config-changed", Signature: "config-changed-by-reopen", Detail: fmt.Sprintf("after %d opens: %s", round+1, d)})
					return
				}
				// behaviour-bearing fields: the data lives where the stored configuration says
				if len(fs.ListRaw(want.WALDir+"/")) == 0 {
					fail(&kit.Violation{Kind: "config-ignored", Signature: "stored-directories-not-used", Detail: fmt.Sprintf("after %d opens no log file exists under the configured WAL directory %s:\n%s", round+1, want.WALDir, fs.Snapshot("n1").Describe())})
					return
				}
				evals++
				// an open that fails for a reason that has nothing to do with the
				// configuration (the disk refuses to create, write, sync or read
				// for a moment) leaves the stored configuration alone
				if (c.PSeed>>3)%3 == 0 && round < c.Reopens {
					nd := fs.Node("n1")
					kind := []int{simos.OpCreate, simos.OpWrite, simos.OpSync, simos.OpRead}[int(c.PSeed>>5)%4]
					nd.ErrRate[kind] = 1
					e2, err := engine.NewEngineFacade(dir)
					nd.ErrRate[kind] = 0
					if err == nil {
						e2.Close()
					} else {
						res.Fault("failed_open_"+simos.OpNames[kind], 1)
					}
					got, lerr := config.LoadConfigFromManifest(dir)
					if lerr != nil {
						fail(&kit.Violation{Kind: "config-roundtrip", Signature: "stored-config-gone-after-failed-open", Detail: fmt.Sprintf("an open attempt during which every %s was refused ended with %v; afterwards the stored configuration does not load: %v", simos.OpNames[kind], err, lerr)})
						return
					}
					if d := cfgEqual(want, got); d != "" {
						fail(&kit.Violation{Kind: "config-changed", Signature: "config-changed-by-failed-open", Detail: fmt.Sprintf("after an open attempt during which every %s was refused (%v): %s", simos.OpNames[kind], err, d)})
						return
					}
				}
			}
		})
		simrt.KillTagged("n1", fs.Node("n1").Gen)
		if res.V != nil {
			return
		}
		withData := fs.Snapshot("n1")

		// ---- the same through a relative path (the process's working directory
		// stays what it is): created, written to, closed, reopened
		if c.PSeed%4 == 0 {
			rel := "relative/db"
			kit.OnNode(fs, "cwd", "relative-path", func() {
				e, err := engine.NewEngineFacade(rel)
				if err != nil {
					fail(&kit.Violation{Kind: "open-error", Signature: "open-error:relative-path", Detail: err.Error()})
					return
				}
				if err := e.Put([]byte("rel-key"), []byte("rel-value")); err != nil {
					res.Probe("relative_put_error")
				}
				first, _ := config.LoadConfigFromManifest(rel)
				e.Close()
				e, err = engine.NewEngineFacade(rel)
				if err != nil {
					fail(&kit.Violation{Kind: "open-error", Signature: "open-error:relative-path-reopen", Detail: err.Error()})
					return
				}
				defer e.Close()
				evals++
				again, _ := config.LoadConfigFromManifest(rel)
				if first != nil && again != nil {
					if d := cfgEqual(first, again); d != "" {
						fail(&kit.Violation{Kind: "config-changed", Signature: "config-changed-by-reopen:relative-path", Detail: d})
						return
					}
				}
				if v, err := e.Get([]byte("rel-key")); err != nil || string(v) != "rel-value" {
					fail(&kit.Violation{Kind: "config-ignored", Signature: "relative-path-reopen-loses-data", Detail: fmt.Sprintf("a database created through the relative path %q and reopened through the same path reads rel-key as (%q, %v):\n%s", rel, v, err, fs.Snapshot("cwd").Describe())})
				}
			})
			simrt.KillTagged("cwd", fs.Node("cwd").Gen)
			if res.V != nil {
				return
			}
		}

		// ---- damaged manifest over existing data: opening must fail, never fall back to defaults
		raw, _ := fs.ReadFileRaw(dir + "/MANIFEST")
		raw = append([]byte(nil), raw...)
		prng := kit.NewRand(c.PSeed)
		tryDamaged := func(img *simos.Image, what string, content []byte) {
			fs.Mount(img)
			evals++
			kit.OnNode(fs, "n1", "open-damaged", func() {
				// is the damaged content still a loadable, valid configuration?
				var probe config.Config
				stillValid := json.Unmarshal(content, &probe) == nil && cfgValid(&probe)
				e, err := engine.NewEngineFacade(dir)
				if err == nil {
					defer e.Close()
				}
				if stillValid {
					res.Probe("damage_left_a_valid_manifest")
					return // neither unreadable nor invalid: the statement gives no verdict
				}
				if err == nil {
					got, _ := config.LoadConfigFromManifest(dir)
					fail(&kit.Violation{Kind: "damaged-manifest-opened", Signature: "damaged-manifest-opened:" + strings.SplitN(what, " ", 2)[0], Detail: fmt.Sprintf("%s: the stored configuration is unreadable or invalid, but the database opened (over existing data) with configuration %+v", what, got)})
				}
			})
			simrt.KillTagged("n1", fs.Node("n1").Gen)
		}
		for n := 0; n < len(raw) && res.V == nil; n++ {
			img := withData.Clone()
			img.Truncate(dir+"/MANIFEST", n)
			res.Fault("truncation", 1)
			tryDamaged(img, fmt.Sprintf("truncation of the manifest at %d/%d", n, len(raw)), raw[:n])
		}
		for i := 0; i < 60 && res.V == nil; i++ {
			p := prng.Intn(len(raw))
			nv := []byte{raw[p] ^ (1 << uint(prng.Intn(8))), 0x00, 0xff, raw[p] + 1, ' ', '"', '-'}[prng.Intn(7)]
			if nv == raw[p] {
				continue
			}
			img := withData.Clone()
			img.SetByte(dir+"/MANIFEST", p, nv)
			content := append([]byte(nil), raw...)
			content[p] = nv
			res.Fault("byte_corruption", 1)
			tryDamaged(img, fmt.Sprintf("corruption of manifest byte %d: %#02x -> %#02x", p, raw[p], nv), content)
		}
		// damage that lies entirely behind a complete object: the tail of an older,
		// longer manifest, padding, a second object, garbage
		for i, tail := range [][]byte{raw[len(raw)/2:], {0, 0, 0, 0}, []byte("{}"), []byte("\n{\"version\":1}"), {0xff, 0xfe, 'x'}, []byte("}")} {
			if res.V != nil {
				break
			}
			img := withData.Clone()
			img.Append(dir+"/MANIFEST", tail)
			res.Fault("trailing_bytes", 1)
			tryDamaged(img, fmt.Sprintf("trailing-bytes variant %d: %d bytes behind the complete manifest", i, len(tail)), append(append([]byte(nil), raw...), tail...))
		}
		res.Evals = evals
		res.Probes["io_points_of_creation"] += int64(len(snaps))
		res.Nontrivial = true
		res.Note = fmt.Sprintf("valid configuration (%d overrides): %d creation I/O points, %d reopens, manifest of %d bytes truncated at every offset", len(c.Fields), len(snaps), c.Reopens, len(raw))
	})
	res.Absorb(out)
	if sim != nil && kit.Verbose {
		res.Trace = sim.TraceLines()
	}
	return res
}

func genCfgCase(r *kit.Rand, tier string) CfgCase {
	c := CfgCase{Sched: kit.GenSched(r, "seq"), Fields: map[string]float64{}, Strings: map[string]string{}, Reopens: r.Range(1, 4), Writes: r.Range(1, 4), PSeed: r.Uint64()}
	c.Sched.MaxVirtS = 3600
	num := []string{"version", "memtable_size", "max_memtables", "sstable_block_size", "sstable_index_size", "compaction_levels", "compaction_ratio",
		"read_only_tx_ttl", "read_write_tx_ttl", "idle_tx_timeout", "tx_cleanup_interval", "tx_warning_threshold", "tx_critical_threshold",
		"wal_sync_bytes", "wal_max_size", "max_memtable_age", "sstable_max_size", "compaction_interval", "max_level_with_tombstones", "wal_sync_mode", "compaction_threads"}
	for i, n := 0, r.Pick(2, 5, 3, 1)+0; i < n; i++ {
		f := num[r.Intn(len(num))]
		var v float64
		switch f {
		case "compaction_ratio":
			v = kit.PickOf(r, 0.5, 1.0, 1.0000001, 1.5, 10, -3)
		case "tx_warning_threshold":
			v = float64(kit.PickOf(r, 0, 1, 50, 75, 89, 90, 99, 100, -1))
		case "tx_critical_threshold":
			v = float64(kit.PickOf(r, 1, 75, 76, 90, 99, 100, 101, 0))
		case "wal_sync_mode":
			v = float64(r.Intn(3))
		case "memtable_size":
			v = float64(kit.PickOf(r, -1, 0, 1, 256, 4096, 1<<20))
		default:
			v = float64(kit.PickOf(r, -1, 0, 1, 2, 7, 1000, 1<<20))
		}
		c.Fields[f] = v
	}
	if r.Bool(0.08) {
		c.Strings[kit.PickOf(r, "wal_dir", "sst_dir")] = ""
	} else if r.Bool(0.15) {
		c.Strings["wal_dir"] = kit.DBDir("n1") + "/" + kit.PickOf(r, "logs", "wal2", "a/b/wal")
	}
	return c
}

func TestC20(t *testing.T) {
	kit.Main(t, kit.Spec[CfgCase]{
		ID:  "C20",
		Gen: genCfgCase,
		Run: runC20,
		Shrink: func(c CfgCase) []CfgCase {
			var out []CfgCase
			for _, k := range kit.SortedKeys(c.Strings) {
				d := c
				d.Strings = map[string]string{}
				for k2, v := range c.Strings {
					if k2 != k {
						d.Strings[k2] = v
					}
				}
				out = append(out, d)
			}
			fk := make([]string, 0, len(c.Fields))
			for k := range c.Fields {
				fk = append(fk, k)
			}
			for _, k := range fk {
				d := c
				d.Fields = map[string]float64{}
				for k2, v := range c.Fields {
					if k2 != k {
						d.Fields[k2] = v
					}
				}
				out = append(out, d)
			}
			if c.Reopens > 1 {
				d := c
				d.Reopens = 1
				out = append(out, d)
			}
			return out
		},
		Strip: func(c CfgCase) any { d := c; d.Sched = kit.Sched{}; return d },
		Rule:  "generated configurations (0-3 numeric fields set around their validity boundaries, occasionally an empty or relocated directory): an invalid one must be rejected by SaveManifest with the node's disk image byte-identical before and after (pure validation; plain input generation); a valid one must load back identical, then - simulation proper - the process is killed before and after every I/O point of the manifest's creation and the database reopened; a database that took writes is reopened 1-4 times (in a quarter of the cases also one created and reopened through a relative path) and must keep configuration, manifest bytes and configured directories, also across open attempts during which the disk refuses every create, write, sync or read (a third of the cases); finally the stored manifest is truncated at every byte offset corrupted at 60 sampled bytes and extended by 6 kinds of trailing bytes over the existing data: if the damaged content is unreadable or invalid, NewEngineFacade must fail. evaluations = images opened; non-trivial = every completed case",
	})
}
