package checks

import (
	"fmt"
	"strconv"
	"testing"

	"github.com/KevoDB/kevo/zsim/kit"
	"github.com/KevoDB/kevo/zsim/simrt"
	"github.com/KevoDB/kevo/zsim/simsync"
)

// C03 — transactions are all-or-nothing. Three sub-checks, one verdict:
//   crash: C02's crash enumeration / multi-crash machinery on programmes that
//          are mostly transactions and batches (prefix oracle, a transaction is one step);
//   vis:   a committing client against concurrent point readers and read-only
//          transactions under dense scheduling inside ApplyBatch;
//   seq:   no-trace semantics: rollback, failed commit (oversized entry; injected
//          write/fsync error), abandoned transaction, repeated keys (last wins),
//          caller reusing its key/value buffers after tx.Put/Delete.

type C03Case struct {
	Kind  string     `json:"kind"`
	Crash *CrashCase `json:"crash,omitempty"`
	Vis   *VisCase   `json:"vis,omitempty"`
	Seq   *KVCase    `json:"seq,omitempty"`
}

type VisCase struct {
	Sched    kit.Sched `json:"sched"`
	Knobs    kit.Knobs `json:"knobs"`
	NKeys    int       `json:"nkeys"`
	NTxns    int       `json:"ntxns"`
	Readers  []int     `json:"readers"` // kind per reader: 0 plain gets, 1 read-only txn gets, 2 read-only txn scan
	ReadOps  int       `json:"read_ops"`
	ValPad   int       `json:"val_pad"`
	FlushMod int       `json:"flush_mod,omitempty"` // writer flushes explicitly every FlushMod txns
}

func visKey(i int) []byte { return []byte(fmt.Sprintf("vk%02d", i)) }

func visVal(tag, pad int) []byte {
	v := []byte(fmt.Sprintf("t%07d.", tag))
	for len(v) < pad {
		v = append(v, byte('a'+len(v)%26))
	}
	return v
}

func visTag(v []byte, found bool) int {
	if !found {
		return 0
	}
	if len(v) < 9 || v[0] != 't' {
		return -1
	}
	n, err := strconv.Atoi(string(v[1:8]))
	if err != nil {
		return -1
	}
	return n
}

func runVis(t *testing.T, c VisCase) *kit.Result {
	res := kit.NewResult()
	cfg := c.Sched.Config()
	cfg.Verbose = kit.Verbose
	var sim *simrt.Sim
	out := simrt.Run(t, cfg, func() {
		sim = simrt.S
		fs := kit.NewFS()
		kit.TagNode(fs, "n1")
		e, err := kit.OpenEngine("n1", c.Knobs)
		if err != nil {
			res.V = &kit.Violation{Kind: "open-error", Signature: "open-error:first", Detail: err.Error()}
			return
		}
		var wg simsync.WaitGroup
		fail := func(v *kit.Violation) {
			if res.V == nil {
				res.V = v
				simrt.Stop()
			}
		}
		committed := 0
		mixedWindow := 0
		inCommit := false
		wg.Add(1)
		simrt.GoNamed("writer", func() {
			defer wg.Done()
			for i := 1; i <= c.NTxns && res.V == nil; i++ {
				tx, err := e.BeginTransaction(false)
				if err != nil {
					fail(&kit.Violation{Kind: "begin-error", Signature: "begin-error", Detail: err.Error()})
					return
				}
				for k := 0; k < c.NKeys; k++ {
					if err := tx.Put(visKey(k), visVal(i, c.ValPad)); err != nil {
						fail(&kit.Violation{Kind: "tx-put-error", Signature: "tx-put-error", Detail: err.Error()})
						return
					}
				}
				inCommit = true
				err = tx.Commit()
				inCommit = false
				if err != nil {
					res.Probe("commit_errors")
				} else {
					committed++
				}
				if c.FlushMod > 0 && i%c.FlushMod == 0 {
					e.FlushImMemTables()
				}
			}
		})
		for ri, kind := range c.Readers {
			ri, kind := ri, kind
			wg.Add(1)
			simrt.GoNamed(fmt.Sprintf("reader%d", ri), func() {
				defer wg.Done()
				last := 0
				rr := kit.NewRand(c.Sched.Seed + uint64(ri)*77)
				for n := 0; n < c.ReadOps && res.V == nil; n++ {
					switch kind {
					case 0:
						k := rr.Intn(c.NKeys)
						if inCommit {
							mixedWindow++
						}
						v, found, err := kit.GetKey(e, visKey(k))
						if err != nil {
							fail(&kit.Violation{Kind: "read-error", Signature: "read-error:get", Detail: err.Error()})
							return
						}
						tag := visTag(v, found)
						if tag < last {
							fail(&kit.Violation{Kind: "partial-visibility", Signature: "vis:get-regressed", Detail: fmt.Sprintf("reader %d: get(%s) shows transaction %d after this reader had already seen transaction %d on another read (every transaction writes all %d keys): a strict subset of a commit was visible", ri, visKey(k), tag, last, c.NKeys)})
							return
						}
						last = tag
					case 1, 2:
						tx, err := e.BeginTransaction(true)
						if err != nil {
							fail(&kit.Violation{Kind: "begin-error", Signature: "begin-error:ro", Detail: err.Error()})
							return
						}
						tags := make([]int, 0, c.NKeys)
						if kind == 1 {
							for k := 0; k < c.NKeys; k++ {
								v, err := tx.Get(visKey(k))
								found := err == nil
								if err != nil && !kit.IsNotFound(err) {
									fail(&kit.Violation{Kind: "read-error", Signature: "read-error:txget", Detail: err.Error()})
									tx.Rollback()
									return
								}
								tags = append(tags, visTag(v, found))
							}
						} else {
							it := tx.NewIterator()
							seen := map[string]int{}
							for it.SeekToFirst(); it.Valid(); it.Next() {
								if !it.IsTombstone() {
									seen[string(it.Key())] = visTag(it.Value(), true)
								}
							}
							for k := 0; k < c.NKeys; k++ {
								tags = append(tags, seen[string(visKey(k))])
							}
						}
						tx.Rollback()
						for _, tg := range tags {
							if tg != tags[0] {
								fail(&kit.Violation{Kind: "partial-visibility", Signature: fmt.Sprintf("vis:ro-txn-mixed:%d", kind), Detail: fmt.Sprintf("reader %d: read-only transaction saw keys from different transactions: %v", ri, tags)})
								return
							}
						}
						if tags[0] < last {
							fail(&kit.Violation{Kind: "partial-visibility", Signature: "vis:ro-txn-regressed", Detail: fmt.Sprintf("reader %d: read-only transaction saw transaction %d after %d", ri, tags[0], last)})
							return
						}
						last = tags[0]
					}
				}
			})
		}
		wg.Wait()
		res.Probes["reads_during_commit"] += int64(mixedWindow)
		res.Probes["committed_txns"] += int64(committed)
		res.Nontrivial = committed >= 2 && mixedWindow > 0
		res.Note = fmt.Sprintf("vis: %d committed transactions over %d keys, %d readers, %d reads began while a commit was in progress", committed, c.NKeys, len(c.Readers), mixedWindow)
		if res.V == nil {
			e.Close()
		}
	})
	res.Absorb(out)
	if sim != nil && kit.Verbose {
		res.Trace = sim.TraceLines()
	}
	return res
}

func genSeqTxnCase(r *kit.Rand) KVCase {
	c := KVCase{Sched: kit.GenSched(r, "seq"), Knobs: kit.GenKnobs(r)}
	c.Sched.MaxVirtS = 4 * 3600
	ks := kit.GenKeySpace(r, kit.PickOf(r, 2, 4, 8))
	var tag uint32
	put := func() kit.Op {
		tag++
		return kit.Op{K: "put", Key: ks.Pick(r), Tag: tag, Len: kit.ValLen(r, false), Nil: r.Bool(0.03)}
	}
	n := r.Range(3, 40)
	for len(c.Ops) < n {
		switch r.Pick(30, 10, 10, 10, 3, 4) {
		case 0: // a transaction with repeated keys, reads of own writes, flags
			t := kit.Op{K: "txn", Commit: r.Bool(0.7), Scribble: r.Bool(0.4)}
			m := r.Range(1, 8)
			for j := 0; j < m; j++ {
				switch r.Pick(6, 3, 3) {
				case 0:
					t.Sub = append(t.Sub, put())
				case 1:
					t.Sub = append(t.Sub, kit.Op{K: "del", Key: ks.Pick(r)})
				default:
					t.Sub = append(t.Sub, kit.Op{K: "get", Key: ks.Pick(r)})
				}
			}
			switch r.Pick(20, 2, 3, 2) {
			case 1: // oversized entry: the commit must fail as a whole
				p := put()
				if r.Bool(0.5) {
					p.Len = kit.PickOf(r, 33000, 40000, 70000)
				} else {
					// around the log's record size, on either side of wherever
					// the limit is applied (commit may succeed or fail; either
					// way as a whole)
					p.Len = 32768 - len(p.Key) - 30 + r.Intn(48)
				}
				t.Sub = append(t.Sub, p)
				t.Commit = true
			case 2:
				t.Commit, t.FailIO = true, r.Range(1, 2)
			case 3:
				t.Abandon = true
			}
			c.Ops = append(c.Ops, t)
			if t.Abandon {
				// the abandoned transaction keeps the database lock: only plain reads, then restart
				for j := 0; j < 3; j++ {
					c.Ops = append(c.Ops, kit.Op{K: "get", Key: ks.Pick(r)})
				}
				c.Ops = append(c.Ops, kit.Op{K: "reopen"})
			}
		case 1:
			c.Ops = append(c.Ops, put())
		case 2:
			c.Ops = append(c.Ops, kit.Op{K: "get", Key: ks.Pick(r)})
		case 3:
			c.Ops = append(c.Ops, kit.Op{K: "del", Key: ks.Pick(r)})
		case 4:
			c.Ops = append(c.Ops, kit.Op{K: "flush"})
		case 5:
			c.Ops = append(c.Ops, kit.Op{K: "reopen"})
		}
	}
	return c
}

func TestC03(t *testing.T) {
	kit.Main(t, kit.Spec[C03Case]{
		ID: "C03",
		Gen: func(r *kit.Rand, tier string) C03Case {
			switch r.Pick(4, 3, 3) {
			case 0:
				cc := genCrashCase(r, tier, true)
				return C03Case{Kind: "crash", Crash: &cc}
			case 1:
				v := VisCase{Sched: kit.GenSched(r, kit.PickOf(r, "conc", "dense")), Knobs: kit.GenKnobs(r), NKeys: r.Range(2, 5), NTxns: r.Range(3, 25),
					ReadOps: r.Range(5, 60), ValPad: kit.PickOf(r, 0, 40, 300), FlushMod: kit.PickOf(r, 0, 0, 3, 7)}
				v.Sched.MaxVirtS = 3600
				for i, n := 0, r.Range(1, 4); i < n; i++ {
					v.Readers = append(v.Readers, r.Pick(5, 3, 2))
				}
				return C03Case{Kind: "vis", Vis: &v}
			default:
				s := genSeqTxnCase(r)
				return C03Case{Kind: "seq", Seq: &s}
			}
		},
		Run: func(t *testing.T, c C03Case) *kit.Result {
			switch c.Kind {
			case "crash":
				return runC02(t, *c.Crash)
			case "vis":
				return runVis(t, *c.Vis)
			default:
				return runC01(t, *c.Seq)
			}
		},
		Shrink: func(c C03Case) []C03Case {
			var out []C03Case
			switch c.Kind {
			case "crash":
				for _, d := range shrinkCrashCase(*c.Crash) {
					d := d
					out = append(out, C03Case{Kind: "crash", Crash: &d})
				}
			case "seq":
				for _, d := range shrinkKVCase(*c.Seq) {
					d := d
					out = append(out, C03Case{Kind: "seq", Seq: &d})
				}
			case "vis":
				v := *c.Vis
				if v.NTxns > 2 {
					d := v
					d.NTxns = v.NTxns / 2
					out = append(out, C03Case{Kind: "vis", Vis: &d})
				}
				if len(v.Readers) > 1 {
					for i := range v.Readers {
						d := v
						d.Readers = append(append([]int(nil), v.Readers[:i]...), v.Readers[i+1:]...)
						out = append(out, C03Case{Kind: "vis", Vis: &d})
					}
				}
				if v.ReadOps > 3 {
					d := v
					d.ReadOps = v.ReadOps / 2
					out = append(out, C03Case{Kind: "vis", Vis: &d})
				}
				if v.NKeys > 2 {
					d := v
					d.NKeys--
					out = append(out, C03Case{Kind: "vis", Vis: &d})
				}
			}
			return out
		},
		Strip: func(c C03Case) any {
			d := c
			switch c.Kind {
			case "crash":
				x := *c.Crash
				x.Sched = kit.Sched{}
				d.Crash = &x
			case "vis":
				x := *c.Vis
				x.Sched = kit.Sched{}
				d.Vis = &x
			default:
				x := *c.Seq
				x.Sched = kit.Sched{}
				d.Seq = &x
			}
			return d
		},
		Rule: "three generators: (crash) transaction-heavy programmes under C02's crash-point enumeration and multi-crash cycles, a transaction being one step of the prefix oracle; (vis) a writer committing transactions that each write all keys with one tag vs 1-4 concurrent readers (plain gets: tags never regress; read-only transactions by get and by scan: one tag) under conc/dense scheduling; (seq) rollback / oversized-entry commit / injected write or fsync error at commit / abandoned transaction / repeated keys / caller scribbling over its buffers, compared with the reference map incl. after reopen. non-trivial: crash as C02; vis = >=2 commits and >=1 read issued while a commit was in progress; seq as C01 or >=1 special transaction",
	})
}
