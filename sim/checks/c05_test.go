package checks

import (
	"bytes"
	"fmt"
	"sort"
	"testing"
	"time"

	"github.com/KevoDB/kevo/pkg/common/iterator"
	"github.com/KevoDB/kevo/pkg/common/iterator/filtered"
	"github.com/KevoDB/kevo/pkg/engine"
	"github.com/KevoDB/kevo/pkg/wal"
	"github.com/KevoDB/kevo/zsim/kit"
	"github.com/KevoDB/kevo/zsim/simrt"
	"github.com/KevoDB/kevo/zsim/simsync"
)

// C05 — scans return exactly the live keys, once, in order, within bounds.
// Mode seq: a programme builds the layer arrangement (active and immutable
// memtables, several and multi-block SSTables, retired log files so that tables
// are the only copy after a reopen), interleaved with scan probes on the engine
// and inside transactions with buffered writes overlaid.
// Mode conc: a scanner runs while writers touch other keys and flush/compact.

type ScanCase struct {
	Mode    string    `json:"mode"`
	Sched   kit.Sched `json:"sched"`
	Knobs   kit.Knobs `json:"knobs"`
	Ops     []kit.Op  `json:"ops"`
	PSeed   uint64    `json:"pseed"`
	Writers int       `json:"writers,omitempty"`
	WOps    int       `json:"wops,omitempty"`
	Scans   int       `json:"scans,omitempty"`
}

// retire makes every earlier write live in SSTables only: flush twice (the
// second call switches out and flushes the active table), then drop all log
// files but the current one.
func retire(e *engine.EngineFacade) error {
	if err := e.FlushImMemTables(); err != nil {
		return err
	}
	if err := e.FlushImMemTables(); err != nil {
		return err
	}
	w := e.GetWAL()
	if w == nil {
		return fmt.Errorf("no WAL")
	}
	_, err := w.ManageRetention(wal.WALRetentionConfig{MaxFileCount: 1})
	return err
}

// collect consumes an iterator the way the service's scan does.
func collect(it iterator.Iterator, limit int) (kvs []kit.KV, problem string) {
	var prev []byte
	n := 0
	for it.SeekToFirst(); it.Valid(); it.Next() {
		n++
		if n > 200000 {
			return kvs, "scan does not terminate"
		}
		k := append([]byte(nil), it.Key()...)
		if prev != nil && bytes.Compare(prev, k) >= 0 && problem == "" {
			if bytes.Equal(prev, k) {
				problem = fmt.Sprintf("key %s yielded twice", kit.Q(k))
			} else {
				problem = fmt.Sprintf("not ascending: %s then %s", kit.Q(prev), kit.Q(k))
			}
		}
		prev = k
		if it.IsTombstone() {
			continue
		}
		v := it.Value()
		if v == nil {
			v = []byte{}
		}
		kvs = append(kvs, kit.KV{Key: k, Val: append([]byte(nil), v...)})
		if limit > 0 && len(kvs) >= limit {
			break
		}
	}
	return kvs, ""
}

func compareScan(got []kit.KV, want []kit.KV, what string) *kit.Violation {
	for i := 0; i < len(got) && i < len(want); i++ {
		if !bytes.Equal(got[i].Key, want[i].Key) {
			sig := "scan-extra-key"
			if bytes.Compare(got[i].Key, want[i].Key) > 0 {
				sig = "scan-missing-key"
			}
			return &kit.Violation{Kind: "scan", Signature: sig, Detail: fmt.Sprintf("%s: position %d is %s, expected %s (got %d keys, expected %d)", what, i, kit.Q(got[i].Key), kit.Q(want[i].Key), len(got), len(want))}
		}
		if !bytes.Equal(got[i].Val, want[i].Val) {
			return &kit.Violation{Kind: "scan", Signature: "scan-stale-value", Detail: fmt.Sprintf("%s: key %s has value %s, latest is %s", what, kit.Q(got[i].Key), kit.Q(got[i].Val), kit.Q(want[i].Val))}
		}
	}
	if len(got) < len(want) {
		return &kit.Violation{Kind: "scan", Signature: "scan-missing-key", Detail: fmt.Sprintf("%s: ends after %d keys, expected %d; first missing %s", what, len(got), len(want), kit.Q(want[len(got)].Key))}
	}
	if len(got) > len(want) {
		return &kit.Violation{Kind: "scan", Signature: "scan-extra-key", Detail: fmt.Sprintf("%s: yields %d keys, expected %d; first extra %s", what, len(got), len(want), kit.Q(got[len(want)].Key))}
	}
	return nil
}

// scanProbes runs a set of scan/seek probes against newIter/newRange over the
// expected live state.
func scanProbes(prng *kit.Rand, state map[string][]byte, allKeys [][]byte, where string,
	newIter func() iterator.Iterator, newRange func(a, b []byte) iterator.Iterator, res *kit.Result) *kit.Violation {
	live := kit.SortedKVs(state)
	pickKey := func() []byte {
		if len(allKeys) == 0 || prng.Bool(0.2) {
			return []byte{byte(prng.Intn(256))}
		}
		k := append([]byte(nil), allKeys[prng.Intn(len(allKeys))]...)
		switch prng.Pick(5, 2, 2, 1) {
		case 1:
			k = append(k, 0)
		case 2:
			if len(k) > 0 {
				k = k[:len(k)-1]
			}
		case 3:
			if len(k) > 0 {
				k[len(k)-1]++
			}
		}
		return k
	}
	filter := func(f func(k []byte) bool) []kit.KV {
		var out []kit.KV
		for _, kv := range live {
			if f(kv.Key) {
				out = append(out, kv)
			}
		}
		return out
	}
	switch prng.Pick(4, 5, 3, 2, 2, 4, 2) {
	case 0: // full scan
		got, problem := collect(newIter(), 0)
		if problem != "" {
			return &kit.Violation{Kind: "scan", Signature: "scan-order", Detail: where + " full scan: " + problem}
		}
		res.Probe("scan_full")
		return compareScan(got, live, where+" full scan")
	case 1: // range scan [a,b)
		a, b := pickKey(), pickKey()
		if bytes.Compare(a, b) > 0 {
			a, b = b, a
		}
		if prng.Bool(0.15) {
			a = nil
		}
		if prng.Bool(0.15) {
			b = nil
		}
		got, problem := collect(newRange(a, b), 0)
		what := fmt.Sprintf("%s range scan [%s,%s)", where, kit.Q(a), kit.Q(b))
		if problem != "" {
			return &kit.Violation{Kind: "scan", Signature: "scan-order", Detail: what + ": " + problem}
		}
		res.Probe("scan_range")
		return compareScan(got, filter(func(k []byte) bool {
			return (a == nil || bytes.Compare(k, a) >= 0) && (b == nil || bytes.Compare(k, b) < 0)
		}), what)
	case 2: // prefix
		p := pickKey()
		if len(p) > 1 {
			p = p[:1+prng.Intn(len(p)-1)]
		}
		got, problem := collect(filtered.NewPrefixIterator(newIter(), p), 0)
		what := fmt.Sprintf("%s prefix scan %s", where, kit.Q(p))
		if problem != "" {
			return &kit.Violation{Kind: "scan", Signature: "scan-order", Detail: what + ": " + problem}
		}
		res.Probe("scan_prefix")
		return compareScan(got, filter(func(k []byte) bool { return bytes.HasPrefix(k, p) }), what)
	case 3: // suffix
		s := pickKey()
		if len(s) > 1 {
			s = s[len(s)-1-prng.Intn(len(s)-1):]
		}
		got, problem := collect(filtered.NewSuffixIterator(newIter(), s), 0)
		what := fmt.Sprintf("%s suffix scan %s", where, kit.Q(s))
		if problem != "" {
			return &kit.Violation{Kind: "scan", Signature: "scan-order", Detail: what + ": " + problem}
		}
		res.Probe("scan_suffix")
		return compareScan(got, filter(func(k []byte) bool { return bytes.HasSuffix(k, s) }), what)
	case 4: // limit
		n := prng.Range(1, 4)
		got, _ := collect(newIter(), n)
		want := live
		if len(want) > n {
			want = want[:n]
		}
		res.Probe("scan_limit")
		return compareScan(got, want, fmt.Sprintf("%s scan with limit %d", where, n))
	case 5: // Seek(t): the smallest live key >= t (skipping deletion markers forward)
		t := pickKey()
		it := newIter()
		if prng.Bool(0.4) {
			// the same inside a range iterator [a,b)
			a, b := pickKey(), pickKey()
			if bytes.Compare(a, b) > 0 {
				a, b = b, a
			}
			it = newRange(a, b)
			where = fmt.Sprintf("%s in range [%s,%s)", where, kit.Q(a), kit.Q(b))
			live = filter(func(k []byte) bool { return bytes.Compare(k, a) >= 0 && bytes.Compare(k, b) < 0 })
			if bytes.Compare(t, a) < 0 {
				t = a
			}
			res.Probe("seek_in_range")
		}
		if prng.Bool(0.5) {
			// the iterator has been used before: it stands somewhere, or is exhausted
			for n := prng.Range(1, 3); n > 0; n-- {
				switch prng.Intn(4) {
				case 0:
					it.SeekToFirst()
				case 1:
					it.Seek(pickKey())
				case 2:
					it.SeekToLast()
				default:
					for j := prng.Intn(4); j > 0 && it.Valid(); j-- {
						it.Next()
					}
				}
			}
			res.Probe("seek_on_a_used_iterator")
		}
		it.Seek(t)
		steps := 0
		for it.Valid() && it.IsTombstone() && steps < 100000 {
			if bytes.Compare(it.Key(), t) < 0 {
				break
			}
			it.Next()
			steps++
		}
		i := sort.Search(len(live), func(i int) bool { return bytes.Compare(live[i].Key, t) >= 0 })
		what := fmt.Sprintf("%s Seek(%s)", where, kit.Q(t))
		res.Probe("seek")
		if i == len(live) {
			if it.Valid() {
				return &kit.Violation{Kind: "seek", Signature: "seek-past-end-valid", Detail: fmt.Sprintf("%s: no live key >= target, but positioned on %s", what, kit.Q(it.Key()))}
			}
			return nil
		}
		if !it.Valid() {
			return &kit.Violation{Kind: "seek", Signature: "seek-invalid", Detail: fmt.Sprintf("%s: invalid, expected %s", what, kit.Q(live[i].Key))}
		}
		if !bytes.Equal(it.Key(), live[i].Key) {
			return &kit.Violation{Kind: "seek", Signature: "seek-wrong-key", Detail: fmt.Sprintf("%s: positioned on %s, smallest live key >= target is %s", what, kit.Q(it.Key()), kit.Q(live[i].Key))}
		}
		if v := it.Value(); !bytes.Equal(v, live[i].Val) {
			return &kit.Violation{Kind: "seek", Signature: "seek-stale-value", Detail: fmt.Sprintf("%s: key %s has value %s, latest %s", what, kit.Q(it.Key()), kit.Q(v), kit.Q(live[i].Val))}
		}
		return nil
	default: // SeekToLast
		it := newIter()
		if prng.Bool(0.4) {
			a, b := pickKey(), pickKey()
			if bytes.Compare(a, b) > 0 {
				a, b = b, a
			}
			it = newRange(a, b)
			where = fmt.Sprintf("%s in range [%s,%s)", where, kit.Q(a), kit.Q(b))
			live = filter(func(k []byte) bool { return bytes.Compare(k, a) >= 0 && bytes.Compare(k, b) < 0 })
			inRange := map[string][]byte{}
			for _, kv := range live {
				inRange[string(kv.Key)] = kv.Val
			}
			state = inRange
			res.Probe("seek_to_last_in_range")
		}
		it.SeekToLast()
		res.Probe("seek_to_last")
		what := where + " SeekToLast"
		if len(live) == 0 {
			if it.Valid() && !it.IsTombstone() {
				return &kit.Violation{Kind: "seek", Signature: "seek-to-last-on-empty", Detail: fmt.Sprintf("%s: nothing is live, but positioned on live %s", what, kit.Q(it.Key()))}
			}
			return nil
		}
		last := live[len(live)-1]
		if !it.Valid() {
			return &kit.Violation{Kind: "seek", Signature: "seek-to-last-invalid", Detail: fmt.Sprintf("%s: invalid, greatest live key is %s", what, kit.Q(last.Key))}
		}
		k := it.Key()
		if it.IsTombstone() {
			if _, isLive := state[string(k)]; isLive || bytes.Compare(k, last.Key) <= 0 {
				return &kit.Violation{Kind: "seek", Signature: "seek-to-last-wrong-key", Detail: fmt.Sprintf("%s: positioned on deletion marker %s, greatest live key is %s", what, kit.Q(k), kit.Q(last.Key))}
			}
			return nil
		}
		if !bytes.Equal(k, last.Key) {
			return &kit.Violation{Kind: "seek", Signature: "seek-to-last-wrong-key", Detail: fmt.Sprintf("%s: positioned on %s, greatest live key is %s", what, kit.Q(k), kit.Q(last.Key))}
		}
		if v := it.Value(); !bytes.Equal(v, last.Val) {
			return &kit.Violation{Kind: "seek", Signature: "seek-to-last-stale-value", Detail: fmt.Sprintf("%s: key %s has value %s, latest %s", what, kit.Q(k), kit.Q(v), kit.Q(last.Val))}
		}
		return nil
	}
}

func runC05(t *testing.T, c ScanCase) *kit.Result {
	if c.Mode == "conc" {
		return runScanConc(t, c)
	}
	res := kit.NewResult()
	cfg := c.Sched.Config()
	cfg.Verbose = kit.Verbose
	var sim *simrt.Sim
	out := simrt.Run(t, cfg, func() {
		sim = simrt.S
		fs := kit.NewFS()
		kit.TagNode(fs, "n1")
		e, err := kit.OpenEngine("n1", c.Knobs)
		if err != nil {
			res.V = &kit.Violation{Kind: "open-error", Signature: "open-error:first", Detail: err.Error()}
			return
		}
		m := kit.NewModel()
		prng := kit.NewRand(c.PSeed)
		retired, probes := 0, 0
		for i, op := range c.Ops {
			if res.V != nil {
				break
			}
			simrt.Note("op %d %s", i, op.String())
			switch op.K {
			case "put", "del", "batch":
				if r := kit.ExecWrite(e, op); r.Err != nil {
					res.Probe("write_errors")
					break
				}
				m.Apply(op.Writes())
			case "txn":
				// scans inside the transaction see its own buffered writes overlaid
				tx, err := e.BeginTransaction(false)
				if err != nil {
					res.V = &kit.Violation{Kind: "begin-error", Signature: "begin-error", Detail: err.Error()}
					break
				}
				overlay := map[string][]byte{}
				for k, v := range m.State(m.Len()) {
					overlay[k] = v
				}
				for _, s := range op.Sub {
					switch s.K {
					case "put":
						tx.Put(s.Key, s.Value())
						v := s.Value()
						if v == nil {
							v = []byte{}
						}
						overlay[string(s.Key)] = v
						m.Touch(s.Key)
					case "del":
						tx.Delete(s.Key)
						delete(overlay, string(s.Key))
						m.Touch(s.Key)
					case "get":
						probes++
						if v := scanProbes(prng, overlay, m.Keys(), fmt.Sprintf("op %d inside txn", i), tx.NewIterator, tx.NewRangeIterator, res); v != nil {
							res.V = v
						}
					}
					if res.V != nil {
						break
					}
				}
				if res.V != nil {
					tx.Rollback()
					break
				}
				if op.Commit {
					if err := tx.Commit(); err != nil {
						res.Probe("write_errors")
						break
					}
					if ws := op.Writes(); len(ws) > 0 {
						m.Apply(ws)
					}
				} else {
					tx.Rollback()
				}
			case "scan":
				probes++
				newIter := func() iterator.Iterator {
					it, err := e.GetIterator()
					if err != nil {
						panic(err)
					}
					return it
				}
				newRange := func(a, b []byte) iterator.Iterator {
					it, err := e.GetRangeIterator(a, b)
					if err != nil {
						panic(err)
					}
					return it
				}
				if v := scanProbes(prng, m.State(m.Len()), m.Keys(), fmt.Sprintf("op %d", i), newIter, newRange, res); v != nil {
					res.V = v
				}
			case "flush":
				e.FlushImMemTables()
			case "compact":
				e.TriggerCompaction()
			case "retire":
				if err := retire(e); err != nil {
					res.Probe("retire_errors")
				} else {
					retired++
				}
			case "sleep":
				simrt.Sleep(time.Duration(op.D) * time.Millisecond)
			case "reopen":
				e.Close()
				e, err = kit.OpenEngine("n1", c.Knobs)
				if err != nil {
					res.V = &kit.Violation{Kind: "open-error", Signature: "open-error:reopen", Detail: err.Error()}
				}
				res.Probe("reopen")
			}
		}
		l0, dp := sstCount(fs, "n1")
		res.Probes["log_retirements"] += int64(retired)
		res.Nontrivial = probes > 0 && m.Len() >= 2 && (l0+dp > 0)
		res.Note = fmt.Sprintf("seq: %d ops, %d write steps, %d probes, %d SSTables, %d log retirements", len(c.Ops), m.Len(), probes, l0+dp, retired)
		if res.V == nil {
			e.Close()
		}
	})
	res.Absorb(out)
	if sim != nil && kit.Verbose {
		res.Trace = sim.TraceLines()
	}
	return res
}

func runScanConc(t *testing.T, c ScanCase) *kit.Result {
	res := kit.NewResult()
	cfg := c.Sched.Config()
	cfg.Verbose = kit.Verbose
	var sim *simrt.Sim
	out := simrt.Run(t, cfg, func() {
		sim = simrt.S
		fs := kit.NewFS()
		kit.TagNode(fs, "n1")
		e, err := kit.OpenEngine("n1", c.Knobs)
		if err != nil {
			res.V = &kit.Violation{Kind: "open-error", Signature: "open-error:first", Detail: err.Error()}
			return
		}
		fail := func(v *kit.Violation) {
			if res.V == nil {
				res.V = v
				simrt.Stop()
			}
		}
		// stable keys: written by the set-up programme, never touched afterwards
		m := kit.NewModel()
		for _, op := range c.Ops {
			switch op.K {
			case "put", "del", "batch":
				if r := kit.ExecWrite(e, op); r.Err == nil {
					m.Apply(op.Writes())
				}
			case "flush":
				e.FlushImMemTables()
			case "retire":
				retire(e)
			}
		}
		stable := m.State(m.Len())
		everLive := map[string]map[string]bool{} // volatile key -> set of values written
		var wg simsync.WaitGroup
		writing := 0
		during := 0
		for w := 0; w < c.Writers; w++ {
			w := w
			wg.Add(1)
			simrt.GoNamed(fmt.Sprintf("writer%d", w), func() {
				defer wg.Done()
				rr := kit.NewRand(c.PSeed + uint64(w)*13)
				writing++
				defer func() { writing-- }()
				for i := 0; i < c.WOps && res.V == nil; i++ {
					k := []byte(fmt.Sprintf("~w%d/%02d", w, rr.Intn(6))) // never a stable key
					switch rr.Pick(6, 2, 1, 1) {
					case 0:
						v := kit.MakeValue(uint32(1000*w+i+1), rr.Range(1, 300))
						if everLive[string(k)] == nil {
							everLive[string(k)] = map[string]bool{}
						}
						everLive[string(k)][string(v)] = true
						e.Put(k, v)
					case 1:
						e.Delete(k)
					case 2:
						e.FlushImMemTables()
					case 3:
						e.TriggerCompaction()
					}
				}
			})
		}
		wg.Add(1)
		simrt.GoNamed("scanner", func() {
			defer wg.Done()
			for s := 0; s < c.Scans && res.V == nil; s++ {
				var it iterator.Iterator
				var err error
				var lo, hi []byte
				srng := kit.NewRand(c.PSeed + uint64(s)*7919)
				if srng.Bool(0.5) && len(stable) > 0 {
					// a range scan whose bounds are stable keys (or just beside them)
					keys := kit.SortedKVs(stable)
					lo = append([]byte(nil), keys[srng.Intn(len(keys))].Key...)
					hi = append([]byte(nil), keys[srng.Intn(len(keys))].Key...)
					if bytes.Compare(lo, hi) > 0 {
						lo, hi = hi, lo
					}
					hi = append(hi, 0xff)
					it, err = e.GetRangeIterator(lo, hi)
				} else {
					it, err = e.GetIterator()
				}
				if err != nil {
					fail(&kit.Violation{Kind: "scan", Signature: "iterator-error", Detail: err.Error()})
					return
				}
				if writing > 0 {
					during++
				}
				got, problem := collect(it, 0)
				if problem != "" {
					fail(&kit.Violation{Kind: "scan", Signature: "conc-scan-order", Detail: fmt.Sprintf("scan %d with %d writers active: %s", s, writing, problem)})
					return
				}
				seen := map[string][]byte{}
				for _, kv := range got {
					seen[string(kv.Key)] = kv.Val
				}
				for k, v := range stable {
					if lo != nil && (bytes.Compare([]byte(k), lo) < 0 || bytes.Compare([]byte(k), hi) >= 0) {
						continue
					}
					gv, ok := seen[k]
					if !ok {
						fail(&kit.Violation{Kind: "scan", Signature: "conc-scan-misses-untouched-key", Detail: fmt.Sprintf("scan %d [%s,%s): key %s existed before the scan and is not written during it, but is missing", s, kit.Q(lo), kit.Q(hi), kit.Q([]byte(k)))})
						return
					}
					if !bytes.Equal(gv, v) {
						fail(&kit.Violation{Kind: "scan", Signature: "conc-scan-wrong-value", Detail: fmt.Sprintf("scan %d: untouched key %s = %s, want %s", s, kit.Q([]byte(k)), kit.Q(gv), kit.Q(v))})
						return
					}
				}
				for k, v := range seen {
					if _, ok := stable[k]; ok {
						continue
					}
					if vals := everLive[k]; vals == nil || !vals[string(v)] {
						fail(&kit.Violation{Kind: "scan", Signature: "conc-scan-fabricated", Detail: fmt.Sprintf("scan %d: key %s = %s was never written", s, kit.Q([]byte(k)), kit.Q(v))})
						return
					}
				}
				simrt.YieldAlways()
			}
		})
		wg.Wait()
		res.Probes["scans_with_writers_active"] += int64(during)
		l0, dp := sstCount(fs, "n1")
		res.Nontrivial = during > 0 && len(stable) >= 1
		res.Note = fmt.Sprintf("conc: %d stable keys, %d writers x %d ops, %d scans (%d while writers active), %d SSTables", len(stable), c.Writers, c.WOps, c.Scans, during, l0+dp)
		if res.V == nil {
			e.Close()
		}
	})
	res.Absorb(out)
	if sim != nil && kit.Verbose {
		res.Trace = sim.TraceLines()
	}
	return res
}

func genScanCase(r *kit.Rand, tier string) ScanCase {
	c := ScanCase{Knobs: kit.GenKnobs(r), PSeed: r.Uint64()}
	ks := kit.GenKeySpace(r, kit.PickOf(r, 4, 8, 16, 24))
	if r.Bool(0.25) {
		c.Mode = "conc"
		c.Sched = kit.GenSched(r, "conc")
		c.Sched.MaxVirtS = 3600
		c.Ops = kit.GenProgram(r, kit.ProgOpts{Keys: ks, MinOps: 3, MaxOps: 25, WBatch: 5, WFlush: 6})
		for i := range c.Ops {
			if c.Ops[i].K == "flush" && r.Bool(0.4) {
				c.Ops[i].K = "retire"
			}
		}
		c.Writers, c.WOps, c.Scans = r.Range(1, 3), r.Range(5, 40), r.Range(1, 6)
		return c
	}
	c.Mode = "seq"
	c.Sched = kit.GenSched(r, "seq")
	c.Sched.MaxVirtS = 4 * 3600
	max := 50
	if tier == "thorough" {
		max = 150
	}
	big := r.Bool(0.12) // values that force multi-block tables
	ops := kit.GenProgram(r, kit.ProgOpts{Keys: ks, MinOps: 5, MaxOps: max, Big: false, WGet: 12, WTxn: 10, WBatch: 5, WFlush: 8, WCompact: 2, WReopen: 4, WSleep: 2})
	for i := range ops {
		switch ops[i].K {
		case "get":
			ops[i].K = "scan"
		case "flush":
			if r.Bool(0.4) {
				ops[i].K = "retire"
			}
		case "put":
			if big && r.Bool(0.5) {
				ops[i].Len = r.Range(9000, 30000)
			}
		}
	}
	c.Ops = ops
	return c
}

func TestC05(t *testing.T) {
	kit.Main(t, kit.Spec[ScanCase]{
		ID:  "C05",
		Gen: genScanCase,
		Run: runC05,
		Shrink: func(c ScanCase) []ScanCase {
			var out []ScanCase
			for _, ops := range kit.ShrinkOps(c.Ops) {
				d := c
				d.Ops = ops
				out = append(out, d)
			}
			if c.Mode == "conc" {
				if c.Writers > 1 {
					d := c
					d.Writers--
					out = append(out, d)
				}
				if c.WOps > 2 {
					d := c
					d.WOps /= 2
					out = append(out, d)
				}
				if c.Scans > 1 {
					d := c
					d.Scans--
					out = append(out, d)
				}
			}
			return out
		},
		Strip: func(c ScanCase) any { d := c; d.Sched = kit.Sched{}; return d },
		Rule:  "mode seq: programmes that spread versions and deletion markers over the active table, immutable tables and SSTables (log files retired after a double flush so that, after a reopen, tables are the only copy), with scan probes on the engine and inside transactions with buffered writes overlaid: full / range [a,b) / prefix / suffix / limit scans, Seek(t) (smallest live key >= t) and SeekToLast, targets present, absent, between keys and out of range, in half of the probes on an iterator that has been positioned 1-3 times before (SeekToFirst, Seek, SeekToLast, a few Next); mode conc: a scanner task against 1-3 writer tasks that put/delete other keys and flush/compact: every scan strictly ascending, duplicate-free, containing every untouched key with its value and nothing never written. non-trivial: seq = >=1 probe, >=2 write steps and >=1 SSTable; conc = >=1 scan started while a writer was active",
	})
}
