package checks

import (
	"fmt"
	"testing"
	"time"

	"github.com/KevoDB/kevo/pkg/engine"
	"github.com/KevoDB/kevo/pkg/wal"
	"github.com/KevoDB/kevo/zsim/kit"
	"github.com/KevoDB/kevo/zsim/simos"
	"github.com/KevoDB/kevo/zsim/simrt"
)

// C08 — write sequence numbers strictly increase for the life of the database.
// Single-writer programmes with flushes (log rotation), clean restarts and
// process crashes. Observed after every acknowledged write: the reported last
// sequence (statistics) and the log's next sequence; at every restart and at
// the end: every stored log entry in file order (wal.ReplayWALDir).

func lastSeq(e *engine.EngineFacade) (uint64, bool) {
	v, ok := e.GetStats()["storage_last_sequence"]
	if !ok {
		return 0, false
	}
	switch x := v.(type) {
	case uint64:
		return x, true
	case int64:
		return uint64(x), true
	case int:
		return uint64(x), true
	}
	return 0, false
}

type walGroup struct {
	seq uint64
	n   int
}

// walGroups replays the node's log directory and groups consecutive entries by
// sequence number (the entries of one batch share a number).
func walGroups(node string) ([]walGroup, error) {
	var gs []walGroup
	_, err := wal.ReplayWALDir(kit.DBDir(node)+"/wal", func(en *wal.Entry) error {
		if len(gs) > 0 && gs[len(gs)-1].seq == en.SequenceNumber {
			gs[len(gs)-1].n++
		} else {
			gs = append(gs, walGroup{en.SequenceNumber, 1})
		}
		return nil
	})
	return gs, err
}

// groupSizes: how many log entries each acknowledged write consists of, by the
// number it was acknowledged with. A stored group with more entries than that
// holds another write under the same number.
func checkGroupSizes(gs []walGroup, sizes map[uint64]int, what string) *kit.Violation {
	for _, g := range gs {
		if n, ok := sizes[g.seq]; ok && g.n > n {
			return &kit.Violation{Kind: "log-sequence-order", Signature: "two-writes-share-a-sequence-number", Detail: fmt.Sprintf("%s: the log holds %d entries under sequence %d, the write acknowledged with that number consists of %d", what, g.n, g.seq, n)}
		}
	}
	return nil
}

func checkGroups(gs []walGroup, what string) *kit.Violation {
	for i := 1; i < len(gs); i++ {
		if gs[i].seq <= gs[i-1].seq {
			return &kit.Violation{Kind: "log-sequence-order", Signature: "log-sequence-not-increasing", Detail: fmt.Sprintf("%s: stored log entries in file order: sequence %d (x%d) is followed by sequence %d (x%d)", what, gs[i-1].seq, gs[i-1].n, gs[i].seq, gs[i].n)}
		}
	}
	return nil
}

func runC08(t *testing.T, sc SeqCase) *kit.Result {
	if sc.Conc != nil {
		return runC08Conc(t, sc)
	}
	c := sc.KVCase
	res := kit.NewResult()
	cfg := c.Sched.Config()
	cfg.Verbose = kit.Verbose
	var sim *simrt.Sim
	out := simrt.Run(t, cfg, func() {
		sim = simrt.S
		fs := kit.NewFS()
		ops := c.Ops
		var prevReported uint64 // last sequence reported after the latest acknowledged write
		ackedSteps, rotations, restarts, crashes := 0, 0, 0, 0
		lossy := false // the latest stop may have cost acknowledged writes (crash without synchronous logging)
		sizes := map[uint64]int{}
		armed := 0
		damaged := false // a refused disk operation broke the log writer: what was acknowledged but still buffered may be gone with it, as after a crash
		node := fs.Node("n1")
		fail := func(v *kit.Violation) {
			if res.V == nil {
				res.V = v
			}
		}
		for len(ops) > 0 && res.V == nil {
			var stopOp string
			died := kit.OnNode(fs, "n1", "incarnation", func() {
				e, err := kit.OpenEngine("n1", c.Knobs)
				if err != nil {
					fail(&kit.Violation{Kind: "open-error", Signature: "open-error", Detail: err.Error()})
					return
				}
				// what survived on disk bounds what the engine must continue from
				gs, err := walGroups("n1")
				if err != nil {
					fail(&kit.Violation{Kind: "log-replay-error", Signature: "log-replay-error", Detail: err.Error()})
					return
				}
				if v := checkGroups(gs, "at open"); v != nil {
					fail(v)
					return
				}
				if v := checkGroupSizes(gs, sizes, "at open"); v != nil && armed > 0 {
					fail(v)
					return
				}
				var maxStored uint64
				if len(gs) > 0 {
					maxStored = gs[len(gs)-1].seq
				}
				if rep, ok := lastSeq(e); ok && rep < maxStored && len(gs) > 0 {
					fail(&kit.Violation{Kind: "reported-sequence-regressed", Signature: "reported-below-stored-after-open", Detail: fmt.Sprintf("after open the reported last sequence is %d but the log holds sequence %d", rep, maxStored)})
					return
				}
				if !lossy {
					// no acknowledged write was lost (clean stop, or a process crash with
					// synchronous logging): the reported value must not have decreased
					if rep, ok := lastSeq(e); ok && rep < prevReported {
						how := "clean-restart"
						if crashes > 0 {
							how = "restart"
						}
						fail(&kit.Violation{Kind: "reported-sequence-regressed", Signature: "reported-regressed-across-" + how, Detail: fmt.Sprintf("reported last sequence %d after a restart that lost no acknowledged write, %d before", rep, prevReported)})
						return
					}
				} else {
					prevReported = maxStored // the unsynced tail may be gone with the crash
					for sq := range sizes {
						if sq > maxStored {
							delete(sizes, sq) // those numbers are issued again
						}
					}
				}
				floor := prevReported
				if maxStored > floor {
					floor = maxStored
				}
				for len(ops) > 0 && res.V == nil {
					op := ops[0]
					ops = ops[1:]
					simrt.Note("op %s", op.String())
					switch op.K {
					case "put", "del", "batch", "txn":
						before, _ := lastSeq(e)
						if op.FailIO > 0 {
							// the disk refuses the next write (1) or sync (2) once
							node.FailNext[[]int{simos.OpWrite, simos.OpSync}[(op.FailIO-1)%2]] = 1
							armed++
						}
						fired0 := node.Stats.ErrFired
						r := kit.ExecWrite(e, op)
						node.FailNext = [simos.NOp]int{}
						if node.Stats.ErrFired != fired0 {
							res.Fault("io_error_in_write", 1)
							damaged = true
							if r.Err == nil {
								// consumed by background maintenance, or swallowed: what that
								// may cost is outside the listed properties - the run ends here
								res.Probe("io_error_hit_background_run_abandoned")
								ops = nil
								continue
							}
						}
						if r.Err != nil {
							res.Probe("write_errors")
							continue
						}
						if len(op.Writes()) == 0 || (op.K == "txn" && !op.Commit) {
							continue
						}
						after, ok := lastSeq(e)
						if !ok {
							fail(&kit.Violation{Kind: "no-stat", Signature: "no-last-sequence-stat", Detail: "storage_last_sequence missing from GetStats"})
							return
						}
						ackedSteps++
						if after <= floor || after <= before && before != 0 {
							fail(&kit.Violation{Kind: "sequence-not-increasing", Signature: "write-sequence-not-increasing:" + op.K, Detail: fmt.Sprintf("%s acknowledged with last sequence %d; before it %d; highest sequence of any earlier write %d", op, after, before, floor)})
							return
						}
						floor, prevReported = after, after
						distinct := map[string]bool{}
						for _, w := range op.Writes() {
							distinct[string(w.Key)] = true
						}
						sizes[after] = len(op.Writes())
						if op.K == "txn" {
							sizes[after] = len(distinct)
						}
					case "flush":
						e.FlushImMemTables()
						rotations++
					case "compact":
						e.TriggerCompaction()
					case "sleep":
						simrt.Sleep(time.Duration(op.D) * time.Millisecond)
					case "get":
						kit.GetKey(e, op.Key)
					case "reopen", "crash":
						if op.K == "crash" && op.D > 0 {
							// the process dies inside one of the next I/O operations
							node.CrashAt = node.IOCount + op.D
							node.CrashMode = op.Len % 3
							node.TornFrac = float64(op.Tag%1000) / 1000
							continue
						}
						stopOp = op.K
						if op.K == "reopen" {
							if rep, ok := lastSeq(e); ok && rep < prevReported {
								fail(&kit.Violation{Kind: "reported-sequence-regressed", Signature: "reported-regressed-live", Detail: fmt.Sprintf("reported last sequence fell from %d to %d", prevReported, rep)})
							}
							e.Close()
						}
						return
					}
					if rep, ok := lastSeq(e); ok && rep < prevReported {
						fail(&kit.Violation{Kind: "reported-sequence-regressed", Signature: "reported-regressed-live", Detail: fmt.Sprintf("after %s the reported last sequence fell from %d to %d", op, prevReported, rep)})
						return
					}
				}
				if len(ops) == 0 && res.V == nil {
					e.Close()
				}
			})
			if res.V != nil {
				break
			}
			node.CrashAt = 0
			switch {
			case died:
				fs.Restart("n1")
				crashes++
				lossy = c.Knobs.SyncMode != 2 // (damaged implies the same)
				res.Fault("crash_inside_io", 1)
			case stopOp == "crash":
				fs.CrashNow("n1")
				fs.Restart("n1")
				crashes++
				lossy = c.Knobs.SyncMode != 2 // (damaged implies the same)
				res.Fault("crash_between_io", 1)
			default:
				lossy = damaged && c.Knobs.SyncMode != 2
				simrt.KillTagged("n1", fs.Node("n1").Gen)
				fs.Restart("n1")
				restarts++
			}
			damaged = false
		}
		if res.V == nil {
			kit.OnNode(fs, "n1", "final", func() {
				gs, err := walGroups("n1")
				if err != nil {
					fail(&kit.Violation{Kind: "log-replay-error", Signature: "log-replay-error", Detail: err.Error()})
					return
				}
				if v := checkGroups(gs, "at end"); v != nil {
					fail(v)
				} else if v := checkGroupSizes(gs, sizes, "at end"); v != nil && armed > 0 {
					fail(v)
				}
				res.Probes["log_groups"] += int64(len(gs))
			})
		}
		res.Probes["rotations"] += int64(rotations)
		res.Probes["clean_restarts"] += int64(restarts)
		res.Probes["crashes"] += int64(crashes)
		res.Nontrivial = ackedSteps >= 3 && (rotations+restarts+crashes) > 0
		res.Note = fmt.Sprintf("%d acknowledged write steps, %d explicit flushes, %d clean restarts, %d crashes", ackedSteps, rotations, restarts, crashes)
	})
	res.Absorb(out)
	if sim != nil && kit.Verbose {
		res.Trace = sim.TraceLines()
	}
	_ = simos.OpWrite
	return res
}

func TestC08(t *testing.T) {
	kit.Main(t, kit.Spec[SeqCase]{
		ID: "C08",
		Gen: func(r *kit.Rand, tier string) SeqCase {
			if r.Bool(0.3) {
				return genSeqConc(r, tier)
			}
			max := 50
			if tier == "thorough" {
				max = 150
			}
			c := genKVCase(r, tier, kit.ProgOpts{MinOps: 4, MaxOps: max, Big: r.Bool(0.1),
				WGet: 3, WTxn: 12, WBatch: 10, WFlush: 10, WCompact: 2, WReopen: 8, WSleep: 3})
			for i := range c.Ops {
				if k := c.Ops[i].K; (k == "put" || k == "batch" || k == "txn") && r.Bool(0.04) {
					c.Ops[i].FailIO = r.Range(1, 2)
				}
				if c.Ops[i].K == "reopen" && r.Bool(0.5) {
					c.Ops[i].K = "crash"
					if r.Bool(0.5) {
						// inside one of the I/O operations of the writes that follow
						c.Ops[i].D, c.Ops[i].Len, c.Ops[i].Tag = int64(r.Range(1, 12)), r.Intn(3), uint32(r.Intn(1000))
					}
				}
			}
			return SeqCase{KVCase: c}
		},
		Run: runC08,
		Shrink: func(c SeqCase) []SeqCase {
			var out []SeqCase
			if c.Conc != nil {
				return shrinkSeqConc(c)
			}
			for _, k := range shrinkKVCase(c.KVCase) {
				out = append(out, SeqCase{KVCase: k})
			}
			return out
		},
		Strip: func(c SeqCase) any {
			return struct {
				K kit.Knobs
				O []kit.Op
				C *SeqConc
			}{c.Knobs, c.Ops, c.Conc}
		},
		Rule: "70% seeded single-writer programmes with explicit flushes (log rotation), automatic rotations, clean restarts and process crashes (between two I/O operations, or inside one of the next 1-12: before it, after it, or with a torn write); after every acknowledged write the reported last sequence must exceed that of every earlier surviving write; after a stop that lost no acknowledged write (clean, or crash with synchronous logging) the reported value must not be lower than before; at every open and at the end the stored log entries (file order) must have strictly increasing sequence groups; 4% of the writes run with one refused disk write or sync (they may fail), after which no stored group may hold more entries than the write acknowledged with its number consists of. 30% concurrent: 2-5 (thorough: 2-8) writer tasks (puts, deletes, batches, transactions on keys unique per operation), a maintenance task (flush/compact), 0-2 observer tasks, in half of the cases the node is a replication primary (real replication.Manager); each write's number is taken from the log's observer interface; calls are stamped with a global event counter and, for calls that did not overlap: a later write carries a higher number, a later reading of storage_last_sequence (statistics) or of last_sequence (replication manager node information) is not lower than an earlier one, and a statistics reading after an acknowledged write is not lower than that write's number. non-trivial = >=3 acknowledged steps and >=1 rotation/restart/crash (sequential) or >=3 acknowledged writes by >=2 writers (concurrent)",
	})
}
