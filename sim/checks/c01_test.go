package checks

import (
	"fmt"
	"os"
	"strings"
	"testing"
	"time"

	"github.com/KevoDB/kevo/pkg/engine"
	"github.com/KevoDB/kevo/zsim/kit"
	"github.com/KevoDB/kevo/zsim/simos"
	"github.com/KevoDB/kevo/zsim/simrt"
)

// C01 — reads return the latest write through every storage layer.
// One client, the engine's own background tasks under the seeded scheduler,
// simulated disk, no injected faults; every get and, at every reopen and at
// the end, a full scan plus point gets are compared with the reference map.

type KVCase struct {
	Sched kit.Sched `json:"sched"`
	Knobs kit.Knobs `json:"knobs"`
	Ops   []kit.Op  `json:"ops"`
}

func genKVCase(r *kit.Rand, tier string, o kit.ProgOpts) KVCase {
	c := KVCase{Sched: kit.GenSched(r, "seq"), Knobs: kit.GenKnobs(r)}
	c.Sched.MaxVirtS = 4 * 3600
	o.Keys = kit.GenKeySpace(r, kit.PickOf(r, 3, 6, 12, 24))
	c.Ops = kit.GenProgram(r, o)
	return c
}

func shrinkKVCase(c KVCase) []KVCase {
	var out []KVCase
	for _, ops := range kit.ShrinkOps(c.Ops) {
		out = append(out, KVCase{Sched: c.Sched, Knobs: c.Knobs, Ops: ops})
	}
	return out
}

// verifyFull compares scan and gets with the model's current state.
func verifyFull(e *engine.EngineFacade, m *kit.Model, phase string) *kit.Violation {
	obs, problem, err := kit.Observe(e, m.Keys())
	if err != nil {
		return &kit.Violation{Kind: "read-error", Signature: "read-error:" + phase, Detail: err.Error()}
	}
	if problem != "" {
		return &kit.Violation{Kind: "scan-order", Signature: "scan-order", Detail: phase + ": " + problem}
	}
	want := m.State(m.Len())
	if d := kit.EqualState(obs.Gets, want); d != "" {
		cls := classifyStateDiff(m, obs.Gets)
		return &kit.Violation{Kind: "get-mismatch", Signature: "get:" + cls + ":" + phase, Detail: phase + ": " + d}
	}
	if d := kit.EqualState(obs.Scan, want); d != "" {
		cls := classifyStateDiff(m, obs.Scan)
		return &kit.Violation{Kind: "scan-mismatch", Signature: "scan:" + cls + ":" + phase, Detail: phase + ": " + d}
	}
	return nil
}

func classifyStateDiff(m *kit.Model, obs map[string][]byte) string {
	for _, k := range m.Keys() {
		v, ok := obs[string(k)]
		if c := kit.ClassifyRead(m, k, v, ok); c != "" {
			return c
		}
	}
	return "extra-key"
}

func sstCount(fs *simos.FS, node string) (l0, deeper int) {
	for _, p := range fs.ListRaw(kit.DBDir(node) + "/sst/") {
		if !strings.HasSuffix(p, ".sst") {
			continue
		}
		base := p[strings.LastIndex(p, "/")+1:]
		if strings.HasPrefix(base, "0_") {
			l0++
		} else {
			deeper++
		}
	}
	return
}

func runC01(t *testing.T, c KVCase) *kit.Result {
	res := kit.NewResult()
	cfg := c.Sched.Config()
	cfg.Verbose = kit.Verbose
	var sim *simrt.Sim
	out := simrt.Run(t, cfg, func() {
		sim = simrt.S
		fs := kit.NewFS()
		kit.TagNode(fs, "n1")
		e, err := kit.OpenEngine("n1", c.Knobs)
		if err != nil {
			res.V = &kit.Violation{Kind: "open-error", Signature: "open-error:first", Detail: err.Error()}
			return
		}
		m := kit.NewModel()
		fail := func(v *kit.Violation) { res.V = v }
		sstReads := false
		okWrites := 0
		special := 0
		aborted := false
		for i, op := range c.Ops {
			if res.V != nil || aborted {
				break
			}
			simrt.Note("op %d %s", i, op.String())
			switch op.K {
			case "put", "del", "batch", "txn":
				node := fs.Node("n1")
				if op.K == "txn" && op.FailIO > 0 {
					kind := simos.OpWrite
					if op.FailIO == 2 {
						kind = simos.OpSync
					}
					op.PreCommit = func() { node.FailNext[kind] = 1 }
				}
				if op.K == "txn" && (op.Scribble || op.Abandon || op.FailIO > 0) {
					special++
				}
				fired0 := node.Stats.ErrFired
				r := kit.ExecWrite(e, op)
				node.FailNext = [simos.NOp]int{}
				if op.K == "txn" && op.Abandon {
					// never finished: no trace now, none after the reopen that must follow
					res.Probe("abandoned_txn")
					break
				}
				if op.K == "txn" && op.FailIO > 0 && node.Stats.ErrFired != fired0 {
					res.Fault("io_error_in_commit", 1)
					if r.Err == nil {
						// The armed error was consumed by background maintenance (or
						// swallowed): what an I/O error inside a flush or rotation may
						// cost is outside the listed properties, so the run ends here.
						res.Probe("io_error_hit_background_run_abandoned")
						aborted = true
					} else {
						// in this session: no trace. After a restart: all or nothing.
						if v := verifyFull(e, m, "after-failed-commit"); v != nil {
							v.Detail = fmt.Sprintf("op %d %s: %s", i, op, v.Detail)
							fail(v)
							break
						}
						e.Close()
						e2, err := kit.OpenEngine("n1", c.Knobs)
						if err != nil {
							fail(&kit.Violation{Kind: "open-error", Signature: "open-error:after-failed-commit", Detail: fmt.Sprintf("op %d: %v", i, err)})
							break
						}
						e = e2
						for _, w := range op.Writes() {
							m.Touch(w.Key)
						}
						obs, _, oerr := kit.Observe(e, m.Keys())
						if oerr != nil {
							fail(&kit.Violation{Kind: "read-error", Signature: "read-error:after-failed-commit", Detail: oerr.Error()})
							break
						}
						// The I/O error broke the log writer: what was acknowledged but still
						// buffered (batch/no sync) may be gone with it, as after a crash. The
						// restarted state must be a prefix of history, the failed transaction
						// being its last, optional step - never a part of it.
						lo := 0
						if c.Knobs.SyncMode == 2 {
							lo = m.Len()
						}
						idx := m.Apply(op.Writes())
						k, ok, why := m.MatchPrefix(obs.Gets, lo, idx)
						if !ok {
							sig := "failed-commit-not-a-prefix"
							if _, _, part := m.MatchPartialStep(obs.Gets, 1, idx); part {
								sig = "failed-commit-partial"
							}
							fail(&kit.Violation{Kind: sig, Signature: sig, Detail: fmt.Sprintf("op %d %s failed with %v; after restart the state is no prefix of history in [%d,%d]: %s", i, op, r.Err, lo, idx, why)})
							break
						}
						if k == idx {
							res.Probe("failed_commit_applied_after_restart")
						}
						m.Truncate(k)
						break
					}
				}
				if r.Err != nil {
					// No property promises that a write succeeds; one that reports an
					// error must have had no effect, so the model stays as it is and
					// every later read still has to agree with it.
					res.Probe("write_errors")
					simrt.Note("write error: %v", r.Err)
					break
				}
				okWrites++
				if op.K == "txn" {
					// reads inside the transaction see the committed state overlaid with its own earlier writes
					overlay := map[string]*kit.W{}
					for j, s := range op.Sub {
						switch s.K {
						case "put", "del":
							w := s.Writes()[0]
							overlay[string(s.Key)] = &w
						case "get":
							var want []byte
							var wfound bool
							if w, ok := overlay[string(s.Key)]; ok {
								want, wfound = w.Val, !w.Del
							} else {
								want, wfound = m.Get(s.Key)
							}
							if wfound != r.SubFound[j] || (wfound && string(want) != string(r.SubVals[j])) {
								fail(&kit.Violation{Kind: "tx-get-mismatch", Signature: "tx-get", Detail: fmt.Sprintf("op %d %s: get %s inside txn = (%s,%v), want (%s,%v)", i, op, kit.Q(s.Key), kit.Q(r.SubVals[j]), r.SubFound[j], kit.Q(want), wfound)})
							}
						}
					}
					if !op.Commit {
						break
					}
				}
				if ws := op.Writes(); len(ws) > 0 {
					m.Apply(ws)
				}
			case "get":
				v, found, err := kit.GetKey(e, op.Key)
				if err != nil {
					fail(&kit.Violation{Kind: "read-error", Signature: "read-error:get", Detail: fmt.Sprintf("op %d %s: %v", i, op, err)})
					break
				}
				if cls := kit.ClassifyRead(m, op.Key, v, found); cls != "" {
					want, wf := m.Get(op.Key)
					fail(&kit.Violation{Kind: "get-mismatch", Signature: "get:" + cls + ":live", Detail: fmt.Sprintf("op %d %s = (%s,%v), want (%s,%v)", i, op, kit.Q(v), found, kit.Q(want), wf)})
				}
			// No property promises that a maintenance call succeeds (a flush can lose
			// the race for its own output file against the compaction worker): an
			// error is counted, and reads must be unaffected all the same.
			case "flush":
				if err := e.FlushImMemTables(); err != nil {
					res.Probe("flush_errors")
					simrt.Note("flush error: %v", err)
				}
			case "compact":
				if err := e.TriggerCompaction(); err != nil {
					res.Probe("compaction_errors")
					simrt.Note("compaction error: %v", err)
				}
			case "crange":
				if err := e.CompactRange(op.Key, op.End); err != nil {
					res.Probe("compaction_errors")
					simrt.Note("range compaction error: %v", err)
				}
			case "sleep":
				simrt.Sleep(time.Duration(op.D) * time.Millisecond)
			case "reopen":
				if err := e.Close(); err != nil {
					fail(&kit.Violation{Kind: "close-error", Signature: "close-error", Detail: fmt.Sprintf("op %d close: %v", i, err)})
					break
				}
				if os.Getenv("KEVOSIM_DEBUG") != "" {
					fmt.Fprintf(os.Stderr, "after close:\n%s", fs.Snapshot("n1").Describe())
				}
				e, err = kit.OpenEngine("n1", c.Knobs)
				if err != nil {
					fail(&kit.Violation{Kind: "open-error", Signature: "open-error:reopen", Detail: fmt.Sprintf("op %d reopen: %v", i, err)})
					break
				}
				res.Probe("reopen")
				if l0, dp := sstCount(fs, "n1"); l0+dp > 0 {
					sstReads = true
				}
				if v := verifyFull(e, m, "after-reopen"); v != nil {
					v.Detail = fmt.Sprintf("op %d: %s\nfiles:\n%s", i, v.Detail, fs.Snapshot("n1").Describe())
					fail(v)
				}
			}
		}
		if res.V == nil && !aborted {
			res.V = verifyFull(e, m, "final")
		}

		l0, dp := sstCount(fs, "n1")
		res.Probes["sst_l0_files"] += int64(l0)
		res.Probes["sst_deeper_files"] += int64(dp)
		if sstReads {
			res.Probe("reads_with_sstables_after_reopen")
		}
		res.Nontrivial = (l0+dp > 0 && okWrites >= 3) || (special > 0 && okWrites >= 1)
		res.Note = fmt.Sprintf("%d ops, %d write steps, %d L0 + %d deeper SSTables", len(c.Ops), m.Len(), l0, dp)
		if res.V == nil {
			e.Close()
		}
	})
	res.Absorb(out)
	if sim != nil && kit.Verbose {
		res.Trace = sim.TraceLines()
	}
	return res
}

func TestC01(t *testing.T) {
	kit.Main(t, kit.Spec[KVCase]{
		ID: "C01",
		Gen: func(r *kit.Rand, tier string) KVCase {
			max := 60
			if tier == "thorough" {
				max = 200
			}
			return genKVCase(r, tier, kit.ProgOpts{MinOps: 5, MaxOps: max, Big: r.Bool(0.15),
				WGet: 25, WTxn: 8, WBatch: 4, WFlush: 6, WCompact: 4, WReopen: 3, WSleep: 3, WNilPut: 2})
		},
		Run:    runC01,
		Shrink: shrinkKVCase,
		Strip: func(c KVCase) any {
			return struct {
				K kit.Knobs
				O []kit.Op
			}{c.Knobs, c.Ops}
		},
		Rule: "seeded single-client programmes (put/del/get/txn/batch/flush/compact/reopen/sleep) x knobs x schedule of background flush/compaction; non-trivial = at least one SSTable exists at the end and >=3 write steps; distinct = (programme+knobs hash, schedule trace hash)",
	})
}
