package checks

import (
	"fmt"
	"strings"
	"testing"
	"time"

	"github.com/anishathalye/porcupine"

	"github.com/KevoDB/kevo/zsim/kit"
	"github.com/KevoDB/kevo/zsim/simrt"
	"github.com/KevoDB/kevo/zsim/simsync"
)

// C04 — transactions are serializable with respect to each other.
// 2-6 client tasks run read-only and read-write transactions (gets, scans,
// puts, deletes; commit or rollback) on at most 4 keys with unique values; at
// most one open transaction per client. The history - one porcupine operation
// per transaction, from the invocation of begin to the return of commit or
// rollback - is checked against a serial map: a transaction's reads are
// replayed against the state overlaid with its own earlier writes, then its
// write set is applied if it committed. Own-writes-visible, no dirty reads,
// repeatable reads and one snapshot per read-only transaction all follow.

const txKeys = 4

type TxOp struct {
	K   string `json:"k"` // get scan put del
	Key int    `json:"key,omitempty"`
	Tag int    `json:"tag,omitempty"`
	// put: the value is larger than a log record may be - the commit will be refused
	Big bool `json:"big,omitempty"`
}

type TxSpec struct {
	RO     bool   `json:"ro,omitempty"`
	Ops    []TxOp `json:"ops"`
	Commit bool   `json:"commit"`
	// RetryTag > 0: if the commit is refused the client waits a moment, puts an
	// ordinary value (this tag) over the key of its first oversized put and
	// commits the same handle again
	RetryTag int `json:"retry_tag,omitempty"`
}

type TxCase struct {
	Sched   kit.Sched  `json:"sched"`
	Knobs   kit.Knobs  `json:"knobs"`
	Clients [][]TxSpec `json:"clients"`
	ValPad  int        `json:"val_pad"`
}

type txState [txKeys]string // "" = not found

type txRead struct {
	op   int
	vals txState // get: only index key is meaningful
}

type txOut struct {
	reads     []txRead
	committed bool
	beginErr  bool
	// the second commit of a handle whose first commit was refused succeeded
	// (with the ordinary value in place of the oversized one)
	committedOnRetry bool
}

func txKey(i int) []byte { return []byte(fmt.Sprintf("tk%d", i)) }

var txModel = porcupine.Model{
	Init: func() interface{} { return txState{} },
	Step: func(state, input, output interface{}) (bool, interface{}) {
		st := state.(txState)
		spec := input.(TxSpec)
		o := output.(txOut)
		if o.beginErr {
			return true, st
		}
		view := st
		ri := 0
		for i, op := range spec.Ops {
			switch op.K {
			case "put":
				view[op.Key] = fmt.Sprintf("x%06d", op.Tag)
			case "del":
				view[op.Key] = ""
			case "get":
				if ri >= len(o.reads) || o.reads[ri].op != i {
					return true, st // the transaction stopped before this read (error path)
				}
				if o.reads[ri].vals[op.Key] != view[op.Key] {
					return false, st
				}
				ri++
			case "scan":
				if ri >= len(o.reads) || o.reads[ri].op != i {
					return true, st
				}
				if o.reads[ri].vals != view {
					return false, st
				}
				ri++
			}
		}
		if o.committed && !spec.RO {
			return true, view
		}
		if o.committedOnRetry && !spec.RO {
			for _, op := range spec.Ops {
				if op.K == "put" && op.Big {
					view[op.Key] = fmt.Sprintf("x%06d", spec.RetryTag)
					break
				}
			}
			return true, view
		}
		return true, st
	},
	Equal: func(a, b interface{}) bool { return a.(txState) == b.(txState) },
	DescribeOperation: func(input, output interface{}) string {
		return describeTx(input.(TxSpec), output.(txOut))
	},
}

func describeTx(spec TxSpec, o txOut) string {
	var b strings.Builder
	if spec.RO {
		b.WriteString("ro{")
	} else {
		b.WriteString("rw{")
	}
	ri := 0
	for i, op := range spec.Ops {
		switch op.K {
		case "put":
			fmt.Fprintf(&b, " put(k%d,x%06d)", op.Key, op.Tag)
		case "del":
			fmt.Fprintf(&b, " del(k%d)", op.Key)
		case "get":
			if ri < len(o.reads) && o.reads[ri].op == i {
				fmt.Fprintf(&b, " get(k%d)=%q", op.Key, o.reads[ri].vals[op.Key])
				ri++
			}
		case "scan":
			if ri < len(o.reads) && o.reads[ri].op == i {
				fmt.Fprintf(&b, " scan=%q", o.reads[ri].vals)
				ri++
			}
		}
	}
	switch {
	case o.beginErr:
		b.WriteString(" } begin failed")
	case o.committed:
		b.WriteString(" } committed")
	default:
		b.WriteString(" } not committed")
	}
	return b.String()
}

func txValName(v []byte) string {
	if len(v) >= 7 {
		return string(v[:7])
	}
	return string(v)
}

func runC04(t *testing.T, c TxCase) *kit.Result {
	res := kit.NewResult()
	cfg := c.Sched.Config()
	cfg.Verbose = kit.Verbose
	var sim *simrt.Sim
	var history []porcupine.Operation
	out := simrt.Run(t, cfg, func() {
		sim = simrt.S
		fs := kit.NewFS()
		kit.TagNode(fs, "n1")
		e, err := kit.OpenEngine("n1", c.Knobs)
		if err != nil {
			res.V = &kit.Violation{Kind: "open-error", Signature: "open-error:first", Detail: err.Error()}
			return
		}
		var evt int64
		var wg simsync.WaitGroup
		for ci, txs := range c.Clients {
			ci, txs := ci, txs
			wg.Add(1)
			simrt.GoNamed(fmt.Sprintf("client%d", ci), func() {
				defer wg.Done()
				for _, spec := range txs {
					evt++
					call := evt
					var o txOut
					tx, err := e.BeginTransaction(spec.RO)
					if err != nil {
						o.beginErr = true
						evt++
						history = append(history, porcupine.Operation{ClientId: ci, Input: spec, Call: call, Output: o, Return: evt})
						continue
					}
					failed := false
					for i, op := range spec.Ops {
						if failed {
							break
						}
						switch op.K {
						case "put":
							v := []byte(fmt.Sprintf("x%06d", op.Tag))
							for len(v) < c.ValPad {
								v = append(v, '.')
							}
							if op.Big {
								v = append(v, make([]byte, 40000)...)
							}
							if err := tx.Put(txKey(op.Key), v); err != nil {
								failed = true
							}
						case "del":
							if err := tx.Delete(txKey(op.Key)); err != nil {
								failed = true
							}
						case "get":
							v, err := tx.Get(txKey(op.Key))
							var r txRead
							r.op = i
							if err == nil {
								r.vals[op.Key] = txValName(v)
							} else if !kit.IsNotFound(err) {
								failed = true
								break
							}
							o.reads = append(o.reads, r)
						case "scan":
							it := tx.NewIterator()
							var r txRead
							r.op = i
							for it.SeekToFirst(); it.Valid(); it.Next() {
								if it.IsTombstone() {
									continue
								}
								for k := 0; k < txKeys; k++ {
									if string(it.Key()) == string(txKey(k)) {
										r.vals[k] = txValName(it.Value())
									}
								}
							}
							o.reads = append(o.reads, r)
						}
					}
					if spec.Commit && !failed {
						if err := tx.Commit(); err == nil {
							o.committed = true
						} else {
							res.Probe("commit_errors")
							if spec.RetryTag > 0 {
								// the program treats the refusal as something to repair and try again
								simrt.Sleep(time.Duration(1+spec.RetryTag%7) * time.Millisecond)
								for _, op := range spec.Ops {
									if op.K == "put" && op.Big {
										tx.Put(txKey(op.Key), []byte(fmt.Sprintf("x%06d", spec.RetryTag)))
										break
									}
								}
								if tx.Commit() == nil {
									o.committedOnRetry = true
								}
								res.Probe("commits_tried_again_after_a_refusal")
							}
						}
					} else {
						tx.Rollback()
					}
					evt++
					history = append(history, porcupine.Operation{ClientId: ci, Input: spec, Call: call, Output: o, Return: evt})
				}
			})
		}
		wg.Wait()
		// the final committed state, read by one more read-only transaction
		evt++
		call := evt
		spec := TxSpec{RO: true, Ops: []TxOp{{K: "scan"}}, Commit: true}
		var o txOut
		if tx, err := e.BeginTransaction(true); err == nil {
			it := tx.NewIterator()
			var r txRead
			for it.SeekToFirst(); it.Valid(); it.Next() {
				if it.IsTombstone() {
					continue
				}
				for k := 0; k < txKeys; k++ {
					if string(it.Key()) == string(txKey(k)) {
						r.vals[k] = txValName(it.Value())
					}
				}
			}
			o.reads = append(o.reads, r)
			tx.Commit()
			o.committed = true
		} else {
			o.beginErr = true
		}
		evt++
		history = append(history, porcupine.Operation{ClientId: len(c.Clients), Input: spec, Call: call, Output: o, Return: evt})
		e.Close()
	})
	res.Absorb(out)
	if sim != nil && kit.Verbose {
		res.Trace = sim.TraceLines()
	}
	if res.V != nil {
		return res
	}
	r := porcupine.CheckOperationsTimeout(txModel, history, 20*time.Second)
	switch r {
	case porcupine.Illegal:
		var b strings.Builder
		b.WriteString("no serial order consistent with real time explains what the transactions read:\n")
		for _, op := range history {
			fmt.Fprintf(&b, "  c%d [%d,%d] %s\n", op.ClientId, op.Call, op.Return, describeTx(op.Input.(TxSpec), op.Output.(txOut)))
		}
		res.V = &kit.Violation{Kind: "not-serializable", Signature: "not-serializable", Detail: b.String()}
	case porcupine.Unknown:
		res.Inconclusive = true
	}
	conc, committed := 0, 0
	for i := range history {
		if history[i].Output.(txOut).committed && !history[i].Input.(TxSpec).RO {
			committed++
		}
		for j := i + 1; j < len(history); j++ {
			if history[i].Call < history[j].Return && history[j].Call < history[i].Return {
				conc++
			}
		}
	}
	res.Probes["overlapping_transaction_pairs"] += int64(conc)
	res.Probes["committed_rw_transactions"] += int64(committed)
	res.Nontrivial = conc > 0 && committed >= 1
	res.Note = fmt.Sprintf("%d transactions by %d clients, %d overlapping pairs, %d committed read-write", len(history), len(c.Clients), conc, committed)
	return res
}

func genTxCase(r *kit.Rand, tier string) TxCase {
	c := TxCase{Sched: kit.GenSched(r, kit.PickOf(r, "conc", "dense")), Knobs: kit.GenKnobs(r), ValPad: kit.PickOf(r, 8, 100, 400)}
	c.Knobs.DiskUs = kit.PickOf(r, 0, 0, 100, 1000) // calls take virtual time: they overlap with timers and each other
	c.Sched.MaxVirtS = 3600
	c.Knobs.MemTableSize = kit.PickOf(r, int64(256), 512, 4096, 32<<20)
	nc := r.Range(2, 6)
	budget := 14
	tag := 0
	for i := 0; i < nc && budget > 0; i++ {
		var txs []TxSpec
		for j, n := 0, r.Range(1, 4); j < n && budget > 0; j++ {
			budget--
			spec := TxSpec{RO: r.Bool(0.35), Commit: r.Bool(0.8)}
			for k, m := 0, r.Range(1, 5); k < m; k++ {
				switch {
				case spec.RO || r.Bool(0.45):
					if r.Bool(0.25) {
						spec.Ops = append(spec.Ops, TxOp{K: "scan"})
					} else {
						spec.Ops = append(spec.Ops, TxOp{K: "get", Key: r.Intn(txKeys)})
					}
				case r.Bool(0.8):
					tag++
					spec.Ops = append(spec.Ops, TxOp{K: "put", Key: r.Intn(txKeys), Tag: tag})
					if r.Bool(0.06) {
						spec.Ops[len(spec.Ops)-1].Big = true
						spec.Commit = true
						if r.Bool(0.7) {
							tag++
							spec.RetryTag = tag
						}
					}
				default:
					spec.Ops = append(spec.Ops, TxOp{K: "del", Key: r.Intn(txKeys)})
				}
			}
			txs = append(txs, spec)
		}
		c.Clients = append(c.Clients, txs)
	}
	return c
}

func TestC04(t *testing.T) {
	kit.Main(t, kit.Spec[TxCase]{
		ID:  "C04",
		Gen: genTxCase,
		Run: runC04,
		Shrink: func(c TxCase) []TxCase {
			var out []TxCase
			if len(c.Clients) > 2 {
				for i := range c.Clients {
					d := c
					d.Clients = append(append([][]TxSpec(nil), c.Clients[:i]...), c.Clients[i+1:]...)
					out = append(out, d)
				}
			}
			for i, txs := range c.Clients {
				for j := range txs {
					d := c
					d.Clients = append([][]TxSpec(nil), c.Clients...)
					d.Clients[i] = append(append([]TxSpec(nil), txs[:j]...), txs[j+1:]...)
					out = append(out, d)
				}
				for j, spec := range txs {
					for k := range spec.Ops {
						d := c
						d.Clients = append([][]TxSpec(nil), c.Clients...)
						d.Clients[i] = append([]TxSpec(nil), txs...)
						ns := spec
						ns.Ops = append(append([]TxOp(nil), spec.Ops[:k]...), spec.Ops[k+1:]...)
						d.Clients[i][j] = ns
						out = append(out, d)
					}
				}
			}
			return out
		},
		Strip: func(c TxCase) any { d := c; d.Sched = kit.Sched{}; return d },
		Rule:  "2-6 client tasks, at most 14 transactions in total (read-only or read-write; 1-5 operations of get/scan/put/delete; commit or rollback), 4 keys, unique values (6% of the puts carry a value no log record can hold, so that the commit is refused; in 70% of those the client then puts an ordinary value over it and commits the same handle again a few milliseconds later), conc/dense scheduling with the engine's background tasks; no writes outside transactions. One porcupine operation per transaction [begin invoked, commit/rollback returned] against a serial map model (reads replayed against state + own writes; write set applied if committed), 20 s cap, timeouts counted inconclusive. A final read-only scan closes the history. non-trivial = >=1 pair of overlapping transactions and >=1 committed read-write transaction",
	})
}
