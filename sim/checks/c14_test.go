package checks

import (
	"fmt"
	"strings"
	"testing"
	"time"

	"github.com/KevoDB/kevo/zsim/kit"
	"github.com/KevoDB/kevo/zsim/simnet"
	"github.com/KevoDB/kevo/zsim/simrt"
)

// C14 — a connected replica converges to the primary's state.
// One primary engine with the replication Primary attached, 1-3 replica
// engines with the real Replica state machine, connected through simnet.
// A script interleaves the primary's workload (puts, deletes, batches,
// multi-key transactions, explicit flushes = log rotations, pauses) with
// replica joins (before, during, after the writes), orderly restarts, process
// kills, connection resets, partitions and stalled readers. Then the faults
// stop: every link is healed, every replica is (re)started. Oracle: within
// SettleS virtual seconds (stalls injected by the scheduler not counted) a
// full scan of every replica equals the reference model's final state, which
// the primary's own scan must equal too; and it still does a few seconds
// later.

type REv struct {
	K  string  `json:"k"` // op sleep join stop restart crash reset down up stall unstall
	Op *kit.Op `json:"op,omitempty"`
	R  int     `json:"r,omitempty"`
	D  int64   `json:"d,omitempty"`
}

func (e REv) String() string {
	switch e.K {
	case "op":
		return e.Op.String()
	case "sleep":
		return fmt.Sprintf("sleep(%dms)", e.D)
	}
	return fmt.Sprintf("%s(r%d)", e.K, e.R)
}

type ReplCase struct {
	Sched   kit.Sched      `json:"sched"`
	PK      kit.Knobs      `json:"pknobs"`
	RK      kit.Knobs      `json:"rknobs"`
	Cfg     ReplCfg        `json:"cfg"`
	Link    simnet.LinkCfg `json:"link"`
	NRep    int            `json:"nrep"`
	Script  []REv          `json:"script"`
	SettleS int64          `json:"settle_s"`
	DiskUs  int            `json:"disk_us,omitempty"` // max virtual latency of a state-changing I/O (all nodes)
	Unit    *UnitScript    `json:"unit,omitempty"`    // C13 only: the receiving side on its own (c13unit_test.go)
}

func scriptString(s []REv) string {
	var out []string
	for _, e := range s {
		out = append(out, e.String())
	}
	return strings.Join(out, "; ")
}

type c14features struct {
	txns, batches, flushes, rotations, restarts, crashes, resets, partitions, stalls, lateJoins, earlyJoins, midJoins int
}

func runC14(t *testing.T, c ReplCase) *kit.Result {
	res := kit.NewResult()
	cfg := c.Sched.Config()
	cfg.Verbose = kit.Verbose
	var sim *simrt.Sim
	kit.RaceLogDelta() // (race-detector workers) forget what earlier runs reported
	var ft c14features
	writes := 0
	out := simrt.Run(t, cfg, func() {
		sim = simrt.S
		cl := newReplCluster(c.Cfg, c.PK, c.RK, c.NRep, c.Link)
		kit.TagNode(cl.fs, "n1")
		cl.setDiskLatency(c.DiskUs)
		fail := func(kind, sig, detail string) {
			if res.V == nil {
				res.V = &kit.Violation{Kind: kind, Signature: sig, Detail: detail}
			}
		}
		if err := cl.startPrimary(); err != nil {
			fail("open-error", "open-error:primary", err.Error())
			return
		}
		m := kit.NewModel()
		firstWAL := cl.pe.GetWAL()
		seenWrite := false
		abandoned := false
		for si, ev := range c.Script {
			if res.V != nil || abandoned {
				break
			}
			switch ev.K {
			case "op":
				op := *ev.Op
				switch op.K {
				case "put", "del", "batch", "txn":
					if op.K == "txn" && (!op.Commit || op.RO) {
						r := kit.ExecWrite(cl.pe, op)
						if r.Err != nil {
							fail("primary-error", "primary-error:"+op.K, fmt.Sprintf("script[%d] %s: %v", si, op, r.Err))
						}
						continue
					}
					r := kit.ExecWrite(cl.pe, op)
					if r.Err != nil && strings.Contains(r.Err.Error(), "WAL is rotating") {
						// kevo gives a writer 3 x 10 ms for a log rotation to finish; a
						// scheduler-injected stall of the rotating task exhausts that
						// with or without replication. Not this property's business,
						// but the model no longer knows the primary's state.
						res.Probe("primary_write_gave_up_on_rotation")
						res.Inconclusive = true
						abandoned = true
						break
					}
					if r.Err != nil {
						fail("primary-error", "primary-error:"+op.K, fmt.Sprintf("script[%d] %s: %v", si, op, r.Err))
						continue
					}
					if ws := op.Writes(); len(ws) > 0 {
						m.Apply(ws)
						writes++
						seenWrite = true
						if op.K == "txn" {
							ft.txns++
						}
						if op.K == "batch" {
							ft.batches++
						}
					}
				case "flush":
					if err := cl.pe.FlushImMemTables(); err != nil {
						res.Probe("primary_flush_error")
					}
					ft.flushes++
				case "compact":
					cl.pe.TriggerCompaction()
				case "get":
					cl.pe.Get(op.Key)
				}
			case "sleep":
				simrt.Sleep(time.Duration(ev.D) * time.Millisecond)
			case "join":
				rn := cl.replicas[ev.R]
				if rn.running {
					continue
				}
				if err := cl.startReplica(ev.R); err != nil {
					fail("open-error", "open-error:replica", err.Error())
				}
				if !seenWrite {
					ft.earlyJoins++
				} else {
					ft.midJoins++
				}
			case "restart":
				if !cl.replicas[ev.R].running {
					continue
				}
				if cl.stopReplica(ev.R) {
					fail("replica-stop-stuck", "replica-stop-stuck", "the replica's orderly stop did not return")
					continue
				}
				ft.restarts++
				if err := cl.startReplica(ev.R); err != nil {
					fail("open-error", "open-error:replica-restart", err.Error())
				}
			case "crash":
				if !cl.replicas[ev.R].running {
					continue
				}
				cl.crashReplica(ev.R)
				ft.crashes++
				res.Fault("replica_process_kill", 1)
				if err := cl.startReplica(ev.R); err != nil {
					fail("open-error", "open-error:replica-after-kill", err.Error())
				}
			case "reset":
				if cl.replicas[ev.R].link.ResetConns("connection reset by fault injection") > 0 {
					ft.resets++
				}
			case "down":
				cl.replicas[ev.R].link.SetDown(true)
				ft.partitions++
				res.Fault("net_partition", 1)
			case "up":
				cl.replicas[ev.R].link.SetDown(false)
			case "stall":
				cl.replicas[ev.R].link.SetStallRecv(true)
				ft.stalls++
				res.Fault("net_reader_stalled", 1)
			case "unstall":
				cl.replicas[ev.R].link.SetStallRecv(false)
			}
		}
		if res.V != nil || abandoned {
			return
		}
		if cl.pe.GetWAL() != firstWAL {
			ft.rotations++
		}
		// ---- faults stop, writes stop
		simrt.Note("SETTLE: faults stop, %d write steps", m.Len())
		for i, rn := range cl.replicas {
			rn.link.SetDown(false)
			rn.link.SetStallRecv(false)
			if !rn.running {
				if err := cl.startReplica(i); err != nil {
					fail("open-error", "open-error:replica-late", err.Error())
					return
				}
				if rn.starts == 1 {
					ft.lateJoins++
				}
			}
		}
		want := m.State(m.Len())
		if ps, err := scanState(cl.pe); err != nil {
			fail("primary-error", "primary-error:scan", err.Error())
			return
		} else if d := kit.EqualState(ps, want); d != "" {
			fail("primary-state", "primary-state-differs-from-model", d)
			return
		}
		lastSeq := cl.pe.GetWAL().GetNextSequence() - 1
		start := simrt.NowUnstalled()
		deadline := start + c.SettleS*int64(time.Second)
		converged := make([]bool, len(cl.replicas))
		convergedAt := make([]int64, len(cl.replicas))
		lastDiff := make([]string, len(cl.replicas))
		for {
			all := true
			for i, rn := range cl.replicas {
				if converged[i] {
					continue
				}
				rs, err := scanState(rn.e)
				if err != nil {
					fail("replica-error", "replica-error:scan", err.Error())
					return
				}
				// A replica that was restarted replays the log from sequence 1 over
				// the data it kept (replication.Manager.startReplica), passing
				// through older states again: it counts as having arrived once
				// this incarnation has applied the log up to the primary's end.
				if d := kit.EqualState(rs, want); d == "" && rn.rec.maxSeqOK < lastSeq {
					lastDiff[i] = fmt.Sprintf("state matches, but this incarnation has applied the log only up to sequence %d of %d", rn.rec.maxSeqOK, lastSeq)
					all = false
				} else if d == "" {
					converged[i] = true
					convergedAt[i] = simrt.NowUnstalled() - start
				} else {
					lastDiff[i] = d
					all = false
				}
			}
			if all || simrt.NowUnstalled() >= deadline {
				break
			}
			simrt.Sleep(250 * time.Millisecond)
		}
		for i, rn := range cl.replicas {
			if converged[i] {
				if convergedAt[i] > int64(10*time.Second) {
					res.Probe("converged_after_more_than_10s")
				}
				if convergedAt[i] > int64(30*time.Second) {
					res.Probe("converged_after_more_than_30s")
				}
				if convergedAt[i] > int64(60*time.Second) {
					res.Probe("converged_after_more_than_60s")
				}
				continue
			}
			rs, _ := scanState(rn.e)
			k, partial, ok := entryPrefixMatch(m, rs)
			what := "diverged"
			if ok {
				what = "stuck-at-prefix"
			}
			detail := fmt.Sprintf("replica %s did not reach the primary's state within %d virtual seconds after writes and faults stopped: %s; replica state matches primary prefix k=%d of %d (partial=%v ok=%v), replica state machine in %s, reports applied seq %d, applier saw %d entries (max seq %d); features: %+v\nscript: %s",
				rn.name, c.SettleS, lastDiff[i], k, m.Len(), partial, ok, rn.rep.GetStateString(), rn.rep.GetLastAppliedSequence(), len(rn.rec.log), rn.rec.maxSeqOK, ft, scriptString(c.Script))
			fail("no-convergence", "no-convergence:"+what, detail)
			return
		}
		// ---- and stays there
		simrt.Sleep(5 * time.Second)
		for _, rn := range cl.replicas {
			rs, err := scanState(rn.e)
			if err != nil {
				fail("replica-error", "replica-error:scan", err.Error())
				return
			}
			if d := kit.EqualState(rs, want); d != "" {
				fail("left-converged-state", "left-converged-state", fmt.Sprintf("replica %s had reached the primary's state and 5 s later differs again: %s", rn.name, d))
				return
			}
		}
		netFaults(res, cl.net)
		// orderly shutdown (not judged here beyond panics)
		for i := range cl.replicas {
			cl.crashReplica(i)
		}
		cl.stopPrimary()
	})
	res.Absorb(out)
	if sim != nil && kit.Verbose {
		res.Trace = sim.TraceLines()
	}
	if simrt.RaceEnabled {
		// every fourth worker runs a -race binary (see C15)
		res.Probe("runs_under_the_race_detector")
		if report := kit.KevoRaces(kit.RaceLogDelta()); report != "" {
			res.V = &kit.Violation{Kind: "data-race", Signature: kit.RaceSignature(report), Detail: clipReport(report)}
		}
	}
	res.Probes["write_steps"] += int64(writes)
	res.Probes["transactions_replicated"] += int64(ft.txns)
	res.Probes["batches_replicated"] += int64(ft.batches)
	res.Probes["primary_log_rotated"] += int64(ft.rotations)
	res.Probes["replica_joined_before_writes"] += int64(ft.earlyJoins)
	res.Probes["replica_joined_during_writes"] += int64(ft.midJoins)
	res.Probes["replica_joined_after_writes"] += int64(ft.lateJoins)
	res.Probes["replica_orderly_restart"] += int64(ft.restarts)
	res.Nontrivial = writes >= 2 && res.V == nil
	res.Note = fmt.Sprintf("%d replicas, %d write steps, features %+v", c.NRep, writes, ft)
	return res
}

func genReplScript(r *kit.Rand, nrep int, tier string, withFaults bool) []REv {
	ks := kit.GenKeySpace(r, 8)
	maxOps := 30
	if tier == "thorough" {
		maxOps = 80
	}
	prog := kit.GenProgram(r, kit.ProgOpts{MinOps: 1, MaxOps: maxOps, Keys: ks, WTxn: 12, WBatch: 8, WFlush: 6, WSleep: 10, WGet: 2, WCompact: 2})
	// The catch-up path of the primary sends at most 100 entries per message
	// (a constant in kevo): a quarter of the cases carry a bulk segment that
	// makes the log cross that mark - many small puts, one large batch or
	// transaction, or puts up to just below the mark followed by a transaction
	// that straddles it.
	if r.Bool(0.25) {
		tag := uint32(100000)
		bulkKey := func(i int) []byte { return []byte(fmt.Sprintf("bulk/%03d", i)) }
		put := func(i int) kit.Op {
			tag++
			return kit.Op{K: "put", Key: bulkKey(i), Tag: tag, Len: r.Range(1, 12)}
		}
		group := func(n int) kit.Op {
			g := kit.Op{K: kit.PickOf(r, "batch", "txn"), Commit: true}
			base := r.Intn(200)
			for i := 0; i < n; i++ {
				if r.Bool(0.15) {
					g.Sub = append(g.Sub, kit.Op{K: "del", Key: bulkKey((base + i) % 200)})
				} else {
					g.Sub = append(g.Sub, put((base+i)%200))
				}
			}
			return g
		}
		var bulk []kit.Op
		switch r.Pick(2, 2, 3) {
		case 0:
			for i, n := 0, r.Range(60, 140); i < n; i++ {
				bulk = append(bulk, put(r.Intn(200)))
			}
		case 1:
			bulk = append(bulk, group(kit.PickOf(r, 3, 50, 99, 100, 101, 150, 160)))
		case 2:
			for i, n := 0, 100-r.Range(0, 6); i < n; i++ {
				bulk = append(bulk, put(r.Intn(200)))
			}
			bulk = append(bulk, group(r.Range(2, 9)))
		}
		at := r.Intn(len(prog) + 1)
		prog = append(append(append([]kit.Op(nil), prog[:at]...), bulk...), prog[at:]...)
	}
	// Structured scenario (one case in seven): a replica joins behind a backlog
	// that needs several catch-up rounds, and while it is catching up the
	// primary flushes (rotates its log), restarts nothing, and takes a few more
	// writes before going quiet. Random placement almost never puts a flush
	// into those few hundred milliseconds.
	if r.Bool(0.15) {
		var script []REv
		tag := uint32(200000)
		n := r.Range(150, 420)
		for i := 0; i < n; i++ {
			tag++
			o := kit.Op{K: "put", Key: []byte(fmt.Sprintf("bulk/%03d", r.Intn(200))), Tag: tag, Len: r.Range(1, 12)}
			script = append(script, REv{K: "op", Op: &o})
		}
		who := r.Intn(nrep)
		script = append(script, REv{K: "join", R: who})
		for round := 0; round < r.Range(1, 3); round++ {
			script = append(script, REv{K: "sleep", D: int64(kit.PickOf(r, 60, 110, 160, 210, 260, 400))})
			o := kit.Op{K: "flush"}
			script = append(script, REv{K: "op", Op: &o})
			for i, m := 0, r.Range(1, 4); i < m; i++ {
				p := prog[r.Intn(len(prog))]
				if p.K == "put" || p.K == "del" || p.K == "txn" || p.K == "batch" {
					q := p
					script = append(script, REv{K: "op", Op: &q})
				}
			}
		}
		tag++
		last := kit.Op{K: "put", Key: []byte("bulk/last"), Tag: tag, Len: 8}
		script = append(script, REv{K: "op", Op: &last})
		for i := 0; i < nrep; i++ {
			if i != who && r.Bool(0.5) {
				script = append(script, REv{K: "join", R: i})
			}
		}
		return script
	}
	var script []REv
	joinAt := make([]int, nrep)
	for i := range joinAt {
		switch r.Pick(3, 3, 2) {
		case 0:
			joinAt[i] = 0
		case 1:
			joinAt[i] = r.Intn(len(prog) + 1)
		case 2:
			joinAt[i] = -1 // after the writes
		}
	}
	joined := make([]bool, nrep)
	down := make([]bool, nrep)
	stalled := make([]bool, nrep)
	for pi := 0; pi <= len(prog); pi++ {
		for i := range joinAt {
			if joinAt[i] == pi {
				script = append(script, REv{K: "join", R: i})
				joined[i] = true
			}
		}
		if pi == len(prog) {
			break
		}
		op := prog[pi]
		if op.K == "sleep" {
			script = append(script, REv{K: "sleep", D: int64(kit.PickOf(r, 1, 30, 120, 600, 1500, 6000))})
		} else if op.K == "crange" || op.K == "reopen" {
			continue
		} else {
			o := op
			script = append(script, REv{K: "op", Op: &o})
		}
		if withFaults && r.Bool(0.12) {
			i := r.Intn(nrep)
			if !joined[i] {
				continue
			}
			switch r.Pick(3, 2, 3, 3, 3) {
			case 0:
				script = append(script, REv{K: "restart", R: i})
			case 1:
				script = append(script, REv{K: "crash", R: i})
			case 2:
				script = append(script, REv{K: "reset", R: i})
			case 3:
				if down[i] {
					script = append(script, REv{K: "up", R: i})
				} else {
					script = append(script, REv{K: "down", R: i})
				}
				down[i] = !down[i]
			case 4:
				if stalled[i] {
					script = append(script, REv{K: "unstall", R: i})
				} else {
					script = append(script, REv{K: "stall", R: i})
				}
				stalled[i] = !stalled[i]
			}
		}
	}
	return script
}

func genLink(r *kit.Rand) simnet.LinkCfg {
	l := simnet.LinkCfg{Window: kit.PickOf(r, 64<<10, 256<<10, 1536<<10)}
	switch r.Pick(3, 2, 1) {
	case 0:
		l.LatMinUs, l.LatMaxUs = 50, 300 // loopback / same rack
	case 1:
		l.LatMinUs, l.LatMaxUs = 500, 5000
	case 2:
		l.LatMinUs, l.LatMaxUs = 20000, 120000 // WAN with jitter
	}
	return l
}

func shrinkScript(s []REv) [][]REv {
	var out [][]REv
	n := len(s)
	for chunk := n / 2; chunk >= 1; chunk /= 2 {
		for i := 0; i+chunk <= n; i += chunk {
			d := append(append([]REv(nil), s[:i]...), s[i+chunk:]...)
			out = append(out, d)
		}
		if chunk == 1 {
			break
		}
	}
	// shrink transaction bodies and values
	for i, e := range s {
		if e.K == "op" && len(e.Op.Sub) > 1 {
			for j := range e.Op.Sub {
				o := *e.Op
				o.Sub = append(append([]kit.Op(nil), e.Op.Sub[:j]...), e.Op.Sub[j+1:]...)
				d := append([]REv(nil), s...)
				d[i] = REv{K: "op", Op: &o}
				out = append(out, d)
			}
		}
		if e.K == "op" && e.Op.K == "put" && e.Op.Len > 8 {
			o := *e.Op
			o.Len = 8
			d := append([]REv(nil), s...)
			d[i] = REv{K: "op", Op: &o}
			out = append(out, d)
		}
		if e.K == "sleep" && e.D > 1 {
			d := append([]REv(nil), s...)
			d[i] = REv{K: "sleep", D: 1}
			out = append(out, d)
		}
	}
	return out
}

func TestC14(t *testing.T) {
	kit.Main(t, kit.Spec[ReplCase]{
		ID: "C14",
		Gen: func(r *kit.Rand, tier string) ReplCase {
			c := ReplCase{Sched: kit.GenSched(r, "net"), PK: kit.GenKnobs(r), RK: kit.GenKnobs(r), Cfg: genReplCfg(r), Link: genLink(r), NRep: r.Pick(5, 3, 1) + 1, SettleS: 120}
			c.Sched.MaxVirtS = 24 * 3600
			c.Sched.MaxSteps = 6_000_000
			c.PK.MemTableSize = kit.PickOf(r, int64(512), 2048, 16384, 32<<20) // small: the log rotates under the workload
			c.RK.MemTableSize = kit.PickOf(r, int64(1024), 16384, 32<<20)
			c.PK.CompactionInterval, c.RK.CompactionInterval = 5, 5
			c.Script = genReplScript(r, c.NRep, tier, r.Bool(0.6))
			c.DiskUs = kit.PickOf(r, 0, 0, 50, 300, 1000)
			return c
		},
		Run: runC14,
		Shrink: func(c ReplCase) []ReplCase {
			var out []ReplCase
			if c.NRep > 1 {
				// keep only one replica
				for keep := 0; keep < c.NRep; keep++ {
					d := c
					d.NRep = 1
					d.Script = nil
					for _, e := range c.Script {
						if e.K == "op" || e.K == "sleep" {
							d.Script = append(d.Script, e)
						} else if e.R == keep {
							e2 := e
							e2.R = 0
							d.Script = append(d.Script, e2)
						}
					}
					out = append(out, d)
				}
			}
			for _, s := range shrinkScript(c.Script) {
				d := c
				d.Script = s
				out = append(out, d)
			}
			if c.Cfg.Compress != 0 || c.Cfg.RCompress != 0 {
				d := c
				d.Cfg.Compress, d.Cfg.RCompress = 0, 0
				out = append(out, d)
			}
			if c.PK.MemTableSize < 32<<20 {
				d := c
				d.PK.MemTableSize = 32 << 20
				out = append(out, d)
			}
			return out
		},
		Strip: func(c ReplCase) any { d := c; d.Sched = kit.Sched{}; return d },
		Rule:  "primary workload of 1-30 (thorough: 1-80) steps over 2-8 keys: put / delete / ApplyBatch / multi-key transaction / explicit flush / compaction trigger / pause 1 ms-6 s; memtable 512 B-32 MB so that the log rotates; 1-3 replicas joining before, during or after the writes; in 60% of cases faults between steps (p=0.12 each): orderly replica restart, replica process kill, connection reset, partition on/off, stalled reader on/off; link latency loopback/LAN/WAN, window 64 KB-1.5 MB; compression none/zstd/snappy x replica codec preference; heartbeat 1 s/3 s, 2 s/10 s or 10 s/30 s; after the script every link is healed and every replica running; violation = some replica's scan differs from the model's final state 120 unstalled virtual seconds later, or differs again 5 s after having matched. non-trivial = >=2 write steps and the run reached the final comparison",
	})
}
