package checks

import (
	"bytes"
	"encoding/binary"
	"errors"
	"fmt"
	"sort"
	"testing"

	"github.com/KevoDB/kevo/pkg/sstable"
	"github.com/KevoDB/kevo/zsim/kit"
	"github.com/KevoDB/kevo/zsim/simos"
	"github.com/KevoDB/kevo/zsim/simrt"
)

// C11 — an SSTable reads back exactly what was written into it.
// sstable.Writer -> simulated file -> sstable.OpenReader. Forward iteration,
// Seek for present / between / before-first / after-last targets, SeekToLast,
// Reader.Get for present and absent keys; read errors; single-byte corruption
// of the stored file (enumerated for small files).

type SstCase struct {
	Sched     kit.Sched `json:"sched"`
	N         int       `json:"n"`
	PrefixLen int       `json:"prefix_len"`
	KeySeed   uint64    `json:"key_seed"`
	ValClass  int       `json:"val_class"` // 0 small, 1 ~100B, 2 ~1KB, 3 mixed with large
	TombP     float64   `json:"tomb_p"`
	EmptyP    float64   `json:"empty_p"`
	Probes    int       `json:"probes"`
	ReadErr   float64   `json:"read_err,omitempty"`
	Corrupt   int       `json:"corrupt,omitempty"` // number of corruption positions to try (0 = none, -1 = all)
	PSeed     uint64    `json:"pseed"`
}

type sstEntry struct {
	key []byte
	val []byte // nil = tombstone
	seq uint64
}

func genSstEntries(c SstCase) []sstEntry {
	r := kit.NewRand(c.KeySeed)
	prefix := make([]byte, c.PrefixLen)
	for i := range prefix {
		prefix[i] = byte('p' + i%3)
	}
	var x uint32 = uint32(r.Range(1, 50))
	out := make([]sstEntry, 0, c.N)
	for i := 0; i < c.N; i++ {
		k := make([]byte, len(prefix)+4, len(prefix)+6)
		copy(k, prefix)
		binary.BigEndian.PutUint32(k[len(prefix):], x)
		if r.Bool(0.1) {
			k = append(k, byte(r.Intn(256)))
		}
		x += uint32(r.Pick(3, 3, 1)*r.Range(1, 3)) + 1
		e := sstEntry{key: k, seq: uint64(r.Range(1, 1<<20))}
		switch {
		case r.Float() < c.TombP:
			e.val = nil
		case r.Float() < c.EmptyP:
			e.val = []byte{}
		default:
			n := 0
			switch c.ValClass {
			case 0:
				n = r.Range(1, 12)
			case 1:
				n = r.Range(60, 140)
			case 2:
				n = r.Range(600, 1400)
			default:
				n = kit.PickOf(r, 3, 100, 1000, 9000, 40000)
			}
			e.val = kit.MakeValue(uint32(i+1), n)
		}
		out = append(out, e)
	}
	return out
}

func describeSstEntry(e sstEntry) string {
	if e.val == nil {
		return fmt.Sprintf("(%s tombstone seq=%d)", kit.Q(e.key), e.seq)
	}
	return fmt.Sprintf("(%s=%s seq=%d)", kit.Q(e.key), kit.Q(e.val), e.seq)
}

// entryAt compares the iterator position with a model entry.
func entryAt(it *sstable.Iterator, e sstEntry) string {
	if !bytes.Equal(it.Key(), e.key) {
		return fmt.Sprintf("key %s, written %s", kit.Q(it.Key()), kit.Q(e.key))
	}
	if it.IsTombstone() != (e.val == nil) {
		return fmt.Sprintf("key %s: deletion flag %v, written %v", kit.Q(e.key), it.IsTombstone(), e.val == nil)
	}
	if e.val != nil && !bytes.Equal(it.Value(), e.val) {
		return fmt.Sprintf("key %s: value %s, written %s", kit.Q(e.key), kit.Q(it.Value()), kit.Q(e.val))
	}
	if it.SequenceNumber() != e.seq {
		return fmt.Sprintf("key %s: sequence %d, written %d", kit.Q(e.key), it.SequenceNumber(), e.seq)
	}
	return ""
}

func runC11(t *testing.T, c SstCase) *kit.Result {
	res := kit.NewResult()
	cfg := c.Sched.Config()
	cfg.Verbose = kit.Verbose
	var sim *simrt.Sim
	out := simrt.Run(t, cfg, func() {
		sim = simrt.S
		fs := kit.NewFS()
		kit.TagNode(fs, "n1")
		simos.MkdirAll("/n1/sst", 0755)
		path := "/n1/sst/0_000001_00000000000000000001.sst"
		ents := genSstEntries(c)
		fail := func(v *kit.Violation) {
			if res.V == nil {
				res.V = v
			}
		}
		w, err := sstable.NewWriter(path)
		if err != nil {
			fail(&kit.Violation{Kind: "write-error", Signature: "sst-writer-error", Detail: err.Error()})
			return
		}
		for _, e := range ents {
			if err := w.AddWithSequence(e.key, e.val, e.seq); err != nil {
				fail(&kit.Violation{Kind: "write-error", Signature: "sst-add-error", Detail: fmt.Sprintf("AddWithSequence %s: %v", describeSstEntry(e), err)})
				return
			}
		}
		if err := w.Finish(); err != nil {
			fail(&kit.Violation{Kind: "write-error", Signature: "sst-finish-error", Detail: err.Error()})
			return
		}
		data, _ := fs.ReadFileRaw(path)
		fileSize := len(data)
		blocks := 1 + fileSize/(64*1024)

		prng := kit.NewRand(c.PSeed)
		find := func(t []byte) int {
			return sort.Search(len(ents), func(i int) bool { return bytes.Compare(ents[i].key, t) >= 0 })
		}

		// ---------------- exact read-back (no faults)
		var blockEnds []int
		exact := func() {
			r, err := sstable.OpenReader(path)
			if err != nil {
				fail(&kit.Violation{Kind: "open-error", Signature: "sst-open-error", Detail: err.Error()})
				return
			}
			defer r.Close()
			// where the data blocks end, as the table's own index says
			if locs, err := r.FindBlockForKey(ents[0].key); err == nil {
				blockEnds = blockEnds[:0]
				for _, l := range locs {
					blockEnds = append(blockEnds, int(l.Offset)+int(l.Size))
				}
			}
			it := r.NewIterator()
			i := 0
			// in a third of the tables the reader also serves point lookups and a
			// second iterator while the scan is under way (one Reader, as in the engine)
			mixed := prng.Bool(0.33)
			var side *sstable.Iterator
			for it.SeekToFirst(); it.Valid(); it.Next() {
				if mixed && i%7 == 3 {
					j := prng.Intn(len(ents))
					if v, err := r.Get(ents[j].key); err != nil || (ents[j].val == nil) != (v == nil) || !bytes.Equal(v, ents[j].val) {
						fail(&kit.Violation{Kind: "get", Signature: "sst-get-during-scan", Detail: fmt.Sprintf("Reader.Get(%s) during a scan of the same table = %s, %v; written %s", kit.Q(ents[j].key), kit.Q(v), err, describeSstEntry(ents[j]))})
						return
					}
					if side == nil {
						side = r.NewIterator()
					}
					if k := prng.Intn(len(ents)); !side.Seek(ents[k].key) || entryAt(side, ents[k]) != "" {
						fail(&kit.Violation{Kind: "seek", Signature: "sst-seek-during-scan", Detail: fmt.Sprintf("a second iterator's Seek(%s) during a scan of the same table: %s", kit.Q(ents[k].key), entryAt(side, ents[k]))})
						return
					}
					res.Probe("lookups_during_a_scan")
				}
				if i >= len(ents) {
					fail(&kit.Violation{Kind: "iterate", Signature: "sst-iterate-extra", Detail: fmt.Sprintf("iteration yields more than the %d entries written; entry %d has key %s", len(ents), i, kit.Q(it.Key()))})
					return
				}
				if d := entryAt(it, ents[i]); d != "" {
					sig := "sst-iterate-mismatch"
					if i > 0 && bytes.Equal(it.Key(), ents[i-1].key) {
						sig = "sst-iterate-duplicate"
					}
					fail(&kit.Violation{Kind: "iterate", Signature: sig, Detail: fmt.Sprintf("forward iteration, position %d of %d (%d blocks): %s", i, len(ents), blocks, d)})
					return
				}
				i++
			}
			if i != len(ents) {
				fail(&kit.Violation{Kind: "iterate", Signature: "sst-iterate-short", Detail: fmt.Sprintf("forward iteration ends after %d of %d entries (%d blocks); next written: %s; iterator error: %v", i, len(ents), blocks, describeSstEntry(ents[i]), it.Error())})
				return
			}
			// SeekToLast
			it2 := r.NewIterator()
			it2.SeekToLast()
			if !it2.Valid() {
				fail(&kit.Violation{Kind: "seek-to-last", Signature: "sst-seek-to-last-invalid", Detail: fmt.Sprintf("SeekToLast is invalid on a table of %d entries", len(ents))})
				return
			}
			if d := entryAt(it2, ents[len(ents)-1]); d != "" {
				fail(&kit.Violation{Kind: "seek-to-last", Signature: "sst-seek-to-last-mismatch", Detail: fmt.Sprintf("SeekToLast on %d entries (%d blocks): %s", len(ents), blocks, d)})
				return
			}
			// Seek probes
			var reused *sstable.Iterator
			for p := 0; p < c.Probes && res.V == nil; p++ {
				var target []byte
				kind := prng.Pick(5, 3, 2, 2, 1, 1, 2)
				i := prng.Intn(len(ents))
				switch kind {
				case 0: // present
					target = ents[i].key
				case 1: // just below a key
					target = append([]byte(nil), ents[i].key...)
					for j := len(target) - 1; j >= 0; j-- {
						if target[j] > 0 {
							target[j]--
							break
						}
						target[j] = 0xff
					}
				case 2: // just above a key
					target = append(append([]byte(nil), ents[i].key...), 0)
				case 3: // a proper prefix of a key
					target = ents[i].key[:prng.Intn(len(ents[i].key))]
				case 4: // before the first
					target = []byte{}
				case 5: // after the last
					target = append(append([]byte(nil), ents[len(ents)-1].key...), 0xff)
				case 6: // restart-interval and block neighbours
					j := (i / 16) * 16
					if prng.Bool(0.5) && j > 0 {
						j--
					}
					target = ents[j].key
				}
				want := find(target)
				// an iterator is either fresh or the one the previous probes left
				// wherever they ended (after a Seek and a Next, at the last entry, exhausted)
				if reused == nil || prng.Bool(0.5) {
					reused = r.NewIterator()
				} else {
					res.Probe("seeks_on_a_used_iterator")
					if prng.Bool(0.2) {
						reused.SeekToLast()
					}
				}
				it3 := reused
				ok := it3.Seek(target)
				if want == len(ents) {
					if ok || it3.Valid() {
						fail(&kit.Violation{Kind: "seek", Signature: "sst-seek-past-end-valid", Detail: fmt.Sprintf("Seek(%s) beyond the last key %s returns %v and is positioned on %s", kit.Q(target), kit.Q(ents[len(ents)-1].key), ok, kit.Q(it3.Key()))})
					}
					continue
				}
				if !it3.Valid() {
					fail(&kit.Violation{Kind: "seek", Signature: "sst-seek-invalid", Detail: fmt.Sprintf("Seek(%s) is invalid; first entry >= target is #%d %s (%d entries, %d blocks)", kit.Q(target), want, describeSstEntry(ents[want]), len(ents), blocks)})
					continue
				}
				if d := entryAt(it3, ents[want]); d != "" {
					got := find(it3.Key())
					fail(&kit.Violation{Kind: "seek", Signature: "sst-seek-wrong-position", Detail: fmt.Sprintf("Seek(%s) [probe kind %d]: %s; expected entry #%d, landed near #%d (%d entries, %d blocks)", kit.Q(target), kind, d, want, got, len(ents), blocks)})
					continue
				}
				// and iteration continues correctly from there
				if want+1 < len(ents) {
					if !it3.Next() || entryAt(it3, ents[want+1]) != "" {
						fail(&kit.Violation{Kind: "seek", Signature: "sst-next-after-seek", Detail: fmt.Sprintf("Next after Seek(%s): positioned on %s, expected %s", kit.Q(target), kit.Q(it3.Key()), describeSstEntry(ents[want+1]))})
					}
				}
			}
			// point lookups
			for p := 0; p < c.Probes && res.V == nil; p++ {
				i := prng.Intn(len(ents))
				if prng.Bool(0.7) {
					v, err := r.Get(ents[i].key)
					if err != nil {
						fail(&kit.Violation{Kind: "get", Signature: "sst-get-misses-written-key", Detail: fmt.Sprintf("Reader.Get(%s) = %v; written as entry #%d of %d (%d blocks): %s", kit.Q(ents[i].key), err, i, len(ents), blocks, describeSstEntry(ents[i]))})
					} else if (ents[i].val == nil) != (v == nil) || !bytes.Equal(v, ents[i].val) {
						fail(&kit.Violation{Kind: "get", Signature: "sst-get-wrong-value", Detail: fmt.Sprintf("Reader.Get(%s) = %s; written %s", kit.Q(ents[i].key), kit.Q(v), describeSstEntry(ents[i]))})
					}
				} else {
					absent := append(append([]byte(nil), ents[i].key...), 0)
					if j := find(absent); j < len(ents) && bytes.Equal(ents[j].key, absent) {
						continue
					}
					if v, err := r.Get(absent); err == nil {
						fail(&kit.Violation{Kind: "get", Signature: "sst-get-finds-absent-key", Detail: fmt.Sprintf("Reader.Get(%s) = %s but that key was never written", kit.Q(absent), kit.Q(v))})
					} else if !errors.Is(err, sstable.ErrNotFound) {
						fail(&kit.Violation{Kind: "get", Signature: "sst-get-error", Detail: fmt.Sprintf("Reader.Get(%s): %v", kit.Q(absent), err)})
					}
				}
			}
		}
		exact()
		evals := 1

		// yieldsOnlyWritten opens the (damaged or failing) file and checks that
		// everything it yields was written; errors and early ends are fine.
		byKey := map[string]sstEntry{}
		for _, e := range ents {
			byKey[string(e.key)] = e
		}
		yieldsOnlyWritten := func(what string) {
			r, err := sstable.OpenReader(path)
			if err != nil {
				res.Probe("damaged_open_rejected")
				return
			}
			defer r.Close()
			it := r.NewIterator()
			n := 0
			var prev []byte
			for it.SeekToFirst(); it.Valid(); it.Next() {
				n++
				if n > len(ents)+8 {
					fail(&kit.Violation{Kind: "damaged-read", Signature: "sst-damaged-iterates-too-many", Detail: fmt.Sprintf("%s: iteration yields more than %d entries", what, len(ents)+8)})
					return
				}
				k := it.Key()
				e, ok := byKey[string(k)]
				if !ok {
					fail(&kit.Violation{Kind: "damaged-read", Signature: "sst-damaged-yields-unwritten-key", Detail: fmt.Sprintf("%s: iteration yields key %s which was never written", what, kit.Q(k))})
					return
				}
				if d := entryAt(it, e); d != "" {
					fail(&kit.Violation{Kind: "damaged-read", Signature: "sst-damaged-yields-altered-entry", Detail: fmt.Sprintf("%s: %s", what, d)})
					return
				}
				if prev != nil && bytes.Compare(prev, k) >= 0 {
					fail(&kit.Violation{Kind: "damaged-read", Signature: "sst-damaged-order", Detail: fmt.Sprintf("%s: %s after %s", what, kit.Q(k), kit.Q(prev))})
					return
				}
				prev = append(prev[:0], k...)
			}
			if n == len(ents) {
				res.Probe("damaged_read_back_complete")
			}
			for p := 0; p < 4; p++ {
				e := ents[prng.Intn(len(ents))]
				v, err := r.Get(e.key)
				if err == nil && ((e.val == nil) != (v == nil) || !bytes.Equal(v, e.val)) {
					fail(&kit.Violation{Kind: "damaged-read", Signature: "sst-damaged-get-altered-value", Detail: fmt.Sprintf("%s: Get(%s) = %s, written %s", what, kit.Q(e.key), kit.Q(v), describeSstEntry(e))})
					return
				}
			}
		}

		// ---------------- read errors
		if c.ReadErr > 0 && res.V == nil {
			fs.Node("n1").ErrRate[simos.OpRead] = c.ReadErr
			for i := 0; i < 6 && res.V == nil; i++ {
				yieldsOnlyWritten("with read errors")
				evals++
			}
			fs.Node("n1").ErrRate[simos.OpRead] = 0
			res.Fault("read_error", fs.Node("n1").Stats.ErrFired[simos.OpRead])
		}

		// ---------------- single-byte corruption
		if c.Corrupt != 0 && res.V == nil {
			base := fs.Snapshot("n1")
			var positions []int
			if c.Corrupt < 0 || c.Corrupt >= fileSize {
				for p := 0; p < fileSize; p++ {
					positions = append(positions, p)
				}
			} else {
				seen := map[int]bool{}
				add := func(p int) {
					if p >= 0 && p < fileSize && !seen[p] {
						seen[p] = true
						positions = append(positions, p)
					}
				}
				for p := fileSize - 120; p < fileSize; p++ { // footer and end of index
					add(p)
				}
				for p := 0; p < 24; p++ {
					add(p)
				}
				// the trailers of up to six data blocks (restart table, counts, checksum)
				for n := 0; n < 6 && len(blockEnds) > 0; n++ {
					end := blockEnds[prng.Intn(len(blockEnds))]
					for p := end - 24; p < end; p++ {
						add(p)
					}
				}
				for len(positions) < c.Corrupt {
					add(prng.Intn(fileSize))
				}
			}
			for _, p := range positions {
				if res.V != nil {
					break
				}
				old := data[p]
				nv := []byte{old ^ (1 << uint(prng.Intn(8))), 0x00, 0xff, old + 1, old - 1}[prng.Intn(5)]
				if nv == old {
					nv = old ^ 0x80
				}
				img := base.Clone()
				img.SetByte(path, p, nv)
				fs.Mount(img)
				kit.TagNode(fs, "n1")
				res.Fault("byte_corruption", 1)
				yieldsOnlyWritten(fmt.Sprintf("byte %d of %d changed %#02x -> %#02x (%d entries)", p, fileSize, old, nv, len(ents)))
				evals++
			}
		}
		res.Evals = evals
		res.Probes["blocks"] += int64(blocks)
		if blocks > 1 {
			res.Probe("multi_block_tables")
		}
		res.Nontrivial = len(ents) >= 2
		res.Note = fmt.Sprintf("%d entries, %d bytes, ~%d blocks, %d evaluations", len(ents), fileSize, blocks, evals)
	})
	res.Absorb(out)
	if sim != nil && kit.Verbose {
		res.Trace = sim.TraceLines()
	}
	return res
}

func TestC11(t *testing.T) {
	kit.Main(t, kit.Spec[SstCase]{
		ID: "C11",
		Gen: func(r *kit.Rand, tier string) SstCase {
			c := SstCase{Sched: kit.GenSched(r, "seq"), KeySeed: r.Uint64(), PSeed: r.Uint64(), PrefixLen: kit.PickOf(r, 0, 1, 8, 60, 200),
				ValClass: r.Pick(4, 3, 2, 1), TombP: kit.PickOf(r, 0.0, 0.1, 0.5), EmptyP: kit.PickOf(r, 0.0, 0.05, 0.3), Probes: 40}
			switch r.Pick(5, 4, 2, 1) {
			case 0:
				c.N = r.Range(1, 20)
			case 1:
				c.N = r.Range(17, 300)
			case 2:
				c.N = r.Range(300, 2000)
			default:
				c.N = r.Range(2000, 6000)
			}
			if r.Bool(0.25) {
				c.ReadErr = kit.PickOf(r, 0.02, 0.1, 0.3)
			}
			if r.Bool(0.35) && c.N <= 300 {
				c.Corrupt = 300
				if tier == "thorough" && c.N <= 60 && c.ValClass <= 1 {
					c.Corrupt = -1
				}
			}
			return c
		},
		Run: runC11,
		Shrink: func(c SstCase) []SstCase {
			var out []SstCase
			for _, n := range []int{c.N / 2, c.N * 3 / 4, c.N - 1} {
				if n >= 1 && n < c.N {
					d := c
					d.N = n
					out = append(out, d)
				}
			}
			if c.PrefixLen > 0 {
				d := c
				d.PrefixLen = 0
				out = append(out, d)
			}
			if c.ValClass > 0 {
				d := c
				d.ValClass = 0
				out = append(out, d)
			}
			if c.TombP > 0 {
				d := c
				d.TombP = 0
				out = append(out, d)
			}
			if c.EmptyP > 0 {
				d := c
				d.EmptyP = 0
				out = append(out, d)
			}
			if c.ReadErr > 0 {
				d := c
				d.ReadErr = 0
				out = append(out, d)
			}
			return out
		},
		Strip: func(c SstCase) any { d := c; d.Sched = kit.Sched{}; return d },
		Rule:  "generated strictly ascending entry sets (1-6000 entries, shared prefixes up to 200 bytes, value classes up to 40KB, tombstones, empty values, arbitrary sequence numbers) written by sstable.Writer to the simulated disk and read by OpenReader: forward iteration, SeekToLast, ~40 Seek targets (present / just below / just above / proper prefix / before first / after last / restart-interval neighbours) each followed by Next, ~40 point lookups (present and absent); half of the Seek probes reuse the iterator the previous probes left somewhere; in a third of the tables point lookups and a second iterator's seeks are interleaved with the forward scan on the same Reader; a share of cases repeats reading under injected read errors and under single-byte corruption of the stored file (300 sampled positions incl. footer/index and the last 24 bytes of up to six data blocks located through the table's own index; bit flip, 0x00, 0xff, +1 or -1; or all positions for small files in the thorough tier): whatever is yielded must have been written. evaluations = read-backs",
	})
}
