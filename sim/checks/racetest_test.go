package checks

import (
	"fmt"
	"os"
	"testing"

	"github.com/KevoDB/kevo/zsim/kit"
	"github.com/KevoDB/kevo/zsim/simrt"
	"github.com/KevoDB/kevo/zsim/simsync"
)

var racyCounter int
var guarded int
var guardMu simsync.Mutex

// TestRaceSelf is the -race self-test of the simulator: an unsynchronised
// counter touched by two tasks must be reported, a mutex-protected one and the
// simulator's own state must not.
func TestRaceSelf(t *testing.T) {
	if os.Getenv("KEVOSIM_RACESELF") == "" {
		t.Skip()
	}
	for rep := 0; rep < 2; rep++ {
		kit.RaceLogDelta()
		cfg := kit.GenSched(kit.NewRand(1), "dense").Config()
		simrt.Run(t, cfg, func() {
			var wg simsync.WaitGroup
			for i := 0; i < 2; i++ {
				wg.Add(1)
				simrt.Go(func() {
					defer wg.Done()
					for j := 0; j < 3; j++ {
						if os.Getenv("KEVOSIM_RACESELF") == "racy" {
							racyCounter++
						}
						guardMu.Lock()
						guarded++
						guardMu.Unlock()
					}
				})
			}
			wg.Wait()
		})
		d := kit.RaceLogDelta()
		fmt.Fprintf(os.Stderr, "rep %d: race report bytes=%d sig=%s\n", rep, len(d), kit.RaceSignature(d))
	}
}
