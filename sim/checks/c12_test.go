package checks

import (
	"bytes"
	"fmt"
	"sort"
	"strings"
	"testing"
	"time"

	"github.com/KevoDB/kevo/pkg/engine"
	"github.com/KevoDB/kevo/pkg/sstable"
	"github.com/KevoDB/kevo/zsim/kit"
	"github.com/KevoDB/kevo/zsim/simos"
	"github.com/KevoDB/kevo/zsim/simrt"
)

// C12 — compaction preserves content; deleted keys stay deleted.
// Programmes spread overwrites and deletes over many level-0 files and deeper
// levels; at "settle" points everything is flushed and the log files are
// retired, so the SSTable directory alone holds the database. From there the
// check runs triggered / range / automatic compactions (optionally killing the
// process at an I/O point inside one) and compares
//   - the newest-wins merged view of the table files (read by the harness with
//     sstable.Reader: level 0 newest file first, then deeper levels) and
//   - what the engine reads, live and after a reopen on the compacted files,
// with the reference map.

type CompCase struct {
	Sched kit.Sched `json:"sched"`
	Knobs kit.Knobs `json:"knobs"`
	Ops   []kit.Op  `json:"ops"`
	Crash []int64   `json:"crash,omitempty"` // per "ccrash" op: I/O points into the compaction at which the process is killed
}

type sstFile struct {
	path  string
	level int
	num   uint64
	ts    int64
}

func listSST(fs *simos.FS, node string) []sstFile {
	var out []sstFile
	dir := kit.DBDir(node) + "/sst/"
	for _, p := range fs.ListRaw(dir) {
		base := p[len(dir):]
		if !strings.HasSuffix(base, ".sst") || strings.Contains(base, "/") || strings.HasPrefix(base, ".") {
			continue
		}
		var f sstFile
		if n, _ := fmt.Sscanf(base, "%d_%06d_%020d.sst", &f.level, &f.num, &f.ts); n != 3 {
			continue
		}
		f.path = p
		out = append(out, f)
	}
	// newest first: level ascending, within a level creation time descending
	sort.Slice(out, func(i, j int) bool {
		if out[i].level != out[j].level {
			return out[i].level < out[j].level
		}
		return out[i].ts > out[j].ts
	})
	return out
}

// fileView computes the live newest-wins merged view of the table files.
func fileView(fs *simos.FS, node string) (map[string][]byte, int, *kit.Violation) {
	// The automatic compaction worker may replace files while the harness is
	// reading the directory: start over when a listed file has disappeared.
	for attempt := 0; ; attempt++ {
		view, n, v := fileViewOnce(fs, node)
		if v != nil && v.Kind == "table-vanished" && attempt < 5 {
			continue
		}
		return view, n, v
	}
}

func fileViewOnce(fs *simos.FS, node string) (map[string][]byte, int, *kit.Violation) {
	files := listSST(fs, node)
	decided := map[string]bool{}
	live := map[string][]byte{}
	for _, f := range files {
		r, err := sstable.OpenReader(f.path)
		if err != nil {
			if _, still := fs.ReadFileRaw(f.path); !still {
				return nil, 0, &kit.Violation{Kind: "table-vanished", Signature: "table-vanished", Detail: f.path}
			}
			return nil, 0, &kit.Violation{Kind: "table-unreadable", Signature: "table-unreadable", Detail: fmt.Sprintf("%s: %v", f.path, err)}
		}
		it := r.NewIterator()
		var prev []byte
		n := 0
		for it.SeekToFirst(); it.Valid(); it.Next() {
			n++
			k := append([]byte(nil), it.Key()...)
			if prev != nil && bytes.Compare(prev, k) >= 0 {
				r.Close()
				return nil, 0, &kit.Violation{Kind: "table-order", Signature: "table-not-sorted-or-duplicate", Detail: fmt.Sprintf("%s: key %s after %s", f.path, kit.Q(k), kit.Q(prev))}
			}
			prev = k
			if decided[string(k)] {
				continue
			}
			decided[string(k)] = true
			if !it.IsTombstone() {
				v := it.Value()
				if v == nil {
					v = []byte{}
				}
				live[string(k)] = append([]byte(nil), v...)
			}
			if n > 1_000_000 {
				break
			}
		}
		r.Close()
	}
	return live, len(files), nil
}

func describeFiles(fs *simos.FS, node string) string {
	var b strings.Builder
	for _, f := range listSST(fs, node) {
		fmt.Fprintf(&b, "L%d #%d @%d:", f.level, f.num, f.ts)
		r, err := sstable.OpenReader(f.path)
		if err != nil {
			fmt.Fprintf(&b, " unreadable: %v\n", err)
			continue
		}
		it := r.NewIterator()
		n := 0
		for it.SeekToFirst(); it.Valid() && n < 12; it.Next() {
			if it.IsTombstone() {
				fmt.Fprintf(&b, " %s=<del>", kit.Q(it.Key()))
			} else {
				fmt.Fprintf(&b, " %s=%s", kit.Q(it.Key()), kit.Q(it.Value()))
			}
			n++
		}
		r.Close()
		b.WriteString("\n")
	}
	return b.String()
}

func runC12(t *testing.T, c CompCase) *kit.Result {
	res := kit.NewResult()
	cfg := c.Sched.Config()
	cfg.Verbose = kit.Verbose
	var sim *simrt.Sim
	out := simrt.Run(t, cfg, func() {
		sim = simrt.S
		fs := kit.NewFS()
		m := kit.NewModel()
		ops := c.Ops
		crashIdx := 0
		settled := false // everything is in table files, no write since
		compactions, settles, reopens, crashes := 0, 0, 0, 0
		fail := func(v *kit.Violation) {
			if res.V == nil {
				res.V = v
			}
		}
		checkFiles := func(what string) {
			view, nfiles, v := fileView(fs, "n1")
			if v != nil {
				v.Detail = what + ": " + v.Detail
				fail(v)
				return
			}
			if d := kit.EqualState(view, m.State(m.Len())); d != "" {
				cls := classifyStateDiff(m, view)
				fail(&kit.Violation{Kind: "file-view", Signature: "file-view:" + cls + ":" + strings.SplitN(what, " ", 2)[0], Detail: fmt.Sprintf("%s: merged view of %d table files differs from the database content: %s\ntables (newest first):\n%s", what, nfiles, d, describeFiles(fs, "n1"))})
			}
		}
		for len(ops) > 0 && res.V == nil {
			stop := ""
			var crashAt int64
			died := kit.OnNode(fs, "n1", "incarnation", func() {
				e, err := kit.OpenEngine("n1", c.Knobs)
				if err != nil {
					fail(&kit.Violation{Kind: "open-error", Signature: "open-error", Detail: fmt.Sprintf("%v\nfiles:\n%s", err, fs.Snapshot("n1").Describe())})
					return
				}
				if reopens+crashes > 0 {
					if v := verifyFull(e, m, "after-reopen"); v != nil {
						v.Detail += "\ntables (newest first):\n" + describeFiles(fs, "n1")
						fail(v)
						return
					}
				}
				for len(ops) > 0 && res.V == nil {
					op := ops[0]
					ops = ops[1:]
					simrt.Note("op %s", op.String())
					switch op.K {
					case "put", "del", "batch", "txn":
						r := kit.ExecWrite(e, op)
						if r.Err != nil {
							res.Probe("write_errors")
							continue
						}
						if ws := op.Writes(); len(ws) > 0 && !(op.K == "txn" && !op.Commit) {
							m.Apply(ws)
							settled = false
						}
					case "flush":
						e.FlushImMemTables()
					case "settle":
						if err := retire(e); err != nil {
							res.Probe("retire_errors")
							continue
						}
						settled = true
						settles++
						checkFiles("settle")
					case "compact", "crange", "sleep":
						// FailIO 1-4: the disk refuses one operation (create, write, sync,
						// rename) during this compaction: it may fail, it must not cost data
						nd := fs.Node("n1")
						failKind := -1
						if op.FailIO > 0 {
							failKind = []int{simos.OpCreate, simos.OpWrite, simos.OpSync, simos.OpRename}[(op.FailIO-1)%4]
							nd.FailNext[failKind] = 1
						}
						fired0 := nd.Stats.ErrFired
						switch op.K {
						case "compact":
							if err := e.TriggerCompaction(); err != nil {
								res.Probe("compaction_errors")
							}
						case "crange":
							if err := e.CompactRange(op.Key, op.End); err != nil {
								res.Probe("compaction_errors")
							}
						default:
							simrt.Sleep(time.Duration(op.D) * time.Millisecond)
						}
						if failKind >= 0 {
							nd.FailNext[failKind] = 0
							if nd.Stats.ErrFired != fired0 {
								res.Fault("io_error_during_compaction_"+simos.OpNames[failKind], 1)
							}
						}
						compactions++
						if settled {
							checkFiles(op.K)
						}
						if res.V == nil {
							if v := verifyFull(e, m, "after-"+op.K); v != nil {
								fail(v)
							}
						}
					case "ccrash":
						// kill the process at an I/O point inside a compaction
						if crashIdx < len(c.Crash) {
							crashAt = c.Crash[crashIdx]
						}
						crashIdx++
						n := fs.Node("n1")
						n.CrashAt = n.IOCount + crashAt
						n.CrashMode = simos.CrashBefore
						stop = "ccrash"
						if op.Key != nil {
							e.CompactRange(op.Key, op.End)
						} else {
							e.TriggerCompaction()
						}
						n.CrashAt = 0
						return
					case "reopen":
						stop = "reopen"
						e.Close()
						return
					}
				}
				if len(ops) == 0 && res.V == nil {
					if settled {
						checkFiles("end")
					}
					stop = "end"
					e.Close()
				}
			})
			if res.V != nil {
				break
			}
			switch {
			case died:
				crashes++
				res.Fault("crash_inside_compaction", 1)
				fs.Restart("n1")
			case stop == "ccrash":
				fs.CrashNow("n1")
				fs.Restart("n1")
				crashes++
				res.Fault("crash_after_compaction", 1)
			default:
				simrt.KillTagged("n1", fs.Node("n1").Gen)
				fs.Restart("n1")
				reopens++
			}
			if settled && res.V == nil {
				kit.OnNode(fs, "n1", "fileview", func() { checkFiles("restart") })
			}
		}
		// one last reopen on whatever the compactions left
		if res.V == nil {
			kit.OnNode(fs, "n1", "final", func() {
				e, err := kit.OpenEngine("n1", c.Knobs)
				if err != nil {
					fail(&kit.Violation{Kind: "open-error", Signature: "open-error", Detail: err.Error()})
					return
				}
				if v := verifyFull(e, m, "after-reopen"); v != nil {
					v.Detail += "\ntables (newest first):\n" + describeFiles(fs, "n1")
					fail(v)
				}
				e.Close()
			})
		}
		l0, dp := sstCount(fs, "n1")
		res.Probes["compaction_ops"] += int64(compactions)
		res.Probes["settles"] += int64(settles)
		res.Probes["deeper_level_files_at_end"] += int64(dp)
		res.Probes["l0_files_at_end"] += int64(l0)
		res.Nontrivial = settles > 0 && compactions > 0 && m.Len() >= 3
		res.Note = fmt.Sprintf("%d write steps, %d settles, %d compaction ops, %d reopens, %d crashes; %d L0 + %d deeper files at the end", m.Len(), settles, compactions, reopens, crashes, l0, dp)
	})
	res.Absorb(out)
	if sim != nil && kit.Verbose {
		res.Trace = sim.TraceLines()
	}
	_ = engine.ErrKeyNotFound
	return res
}

func genCompCase(r *kit.Rand, tier string) CompCase {
	c := CompCase{Sched: kit.GenSched(r, "seq"), Knobs: kit.GenKnobs(r)}
	c.Sched.MaxVirtS = 8 * 3600
	c.Knobs.MemTableSize = kit.PickOf(r, int64(256), 512, 1024, 4096)
	c.Knobs.SyncMode = 2 // the process is killed inside compactions: acknowledged writes must be durable
	ks := kit.GenKeySpace(r, kit.PickOf(r, 3, 6, 12))
	rounds := r.Range(1, 5)
	if tier == "thorough" {
		rounds = r.Range(1, 10)
	}
	var tag uint32
	c.Knobs.CompactionLevels = kit.PickOf(r, 0, 0, 2, 3, 5)
	if r.Bool(0.1) {
		// A deep tree: every range compaction moves the tables it takes below
		// all existing levels, so a run of them digs deeper than the
		// configured number of levels. Then a key that lives down there is
		// deleted or overwritten, the tables settle, the process restarts (the
		// in-memory tombstone tracker is empty) and the shallow levels are
		// compacted.
		lo, hi := ks.Keys[0], ks.Keys[0]
		for _, k := range ks.Keys {
			if bytes.Compare(k, lo) < 0 {
				lo = k
			}
			if bytes.Compare(k, hi) > 0 {
				hi = k
			}
		}
		victim := ks.Pick(r)
		for d, depth := 0, r.Range(2, 10); d < depth; d++ {
			tag++
			c.Ops = append(c.Ops, kit.Op{K: "put", Key: victim, Tag: tag, Len: r.Range(1, 30)})
			if r.Bool(0.5) {
				tag++
				c.Ops = append(c.Ops, kit.Op{K: "put", Key: ks.Pick(r), Tag: tag, Len: r.Range(1, 30)})
			}
			c.Ops = append(c.Ops, kit.Op{K: "settle"}, kit.Op{K: "crange", Key: lo, End: append(append([]byte(nil), hi...), 0xff)})
		}
		if r.Bool(0.7) {
			c.Ops = append(c.Ops, kit.Op{K: "del", Key: victim})
		} else {
			tag++
			c.Ops = append(c.Ops, kit.Op{K: "put", Key: victim, Tag: tag, Len: r.Range(0, 30)})
		}
		c.Ops = append(c.Ops, kit.Op{K: "settle"})
		if r.Bool(0.8) {
			c.Ops = append(c.Ops, kit.Op{K: "reopen"})
		}
		c.Ops = append(c.Ops, kit.Op{K: kit.PickOf(r, "compact", "compact", "sleep"), D: 5500})
		rounds = r.Range(0, 2)
	}
	for round := 0; round < rounds; round++ {
		// writes spread over several flushes
		part := kit.GenProgram(r, kit.ProgOpts{Keys: ks, MinOps: 2, MaxOps: 14, WTxn: 8, WBatch: 5, WFlush: 14})
		for i := range part {
			if part[i].K == "put" {
				tag++
				part[i].Tag = tag
			}
			for j := range part[i].Sub {
				if part[i].Sub[j].K == "put" {
					tag++
					part[i].Sub[j].Tag = tag
				}
			}
		}
		c.Ops = append(c.Ops, part...)
		if r.Bool(0.8) {
			c.Ops = append(c.Ops, kit.Op{K: "settle"})
		}
		for i, n := 0, r.Range(0, 3); i < n; i++ {
			switch r.Pick(5, 3, 2, 2, 2) {
			case 0:
				c.Ops = append(c.Ops, kit.Op{K: "compact"})
			case 1:
				a, b := ks.Pick(r), ks.Pick(r)
				if bytes.Compare(a, b) > 0 {
					a, b = b, a
				}
				c.Ops = append(c.Ops, kit.Op{K: "crange", Key: a, End: b})
			case 2:
				c.Ops = append(c.Ops, kit.Op{K: "sleep", D: int64(kit.PickOf(r, 1100, 5500, 31000))})
			case 3:
				c.Ops = append(c.Ops, kit.Op{K: "reopen"})
			case 4:
				op := kit.Op{K: "ccrash"}
				if r.Bool(0.3) {
					a, b := ks.Pick(r), ks.Pick(r)
					if bytes.Compare(a, b) > 0 {
						a, b = b, a
					}
					op.Key, op.End = a, b
				}
				c.Ops = append(c.Ops, op)
				c.Crash = append(c.Crash, int64(r.Range(1, 40)))
			}
		}
	}
	// the disk refuses one operation during some of the compactions
	if r.Bool(0.4) {
		for i := range c.Ops {
			if k := c.Ops[i].K; (k == "compact" || k == "crange" || k == "sleep") && r.Bool(0.3) {
				c.Ops[i].FailIO = r.Range(1, 4)
			}
		}
	}
	return c
}

func TestC12(t *testing.T) {
	kit.Main(t, kit.Spec[CompCase]{
		ID:  "C12",
		Gen: genCompCase,
		Run: runC12,
		Shrink: func(c CompCase) []CompCase {
			var out []CompCase
			for _, ops := range kit.ShrinkOps(c.Ops) {
				d := c
				d.Ops = ops
				out = append(out, d)
			}
			return out
		},
		Strip: func(c CompCase) any { d := c; d.Sched = kit.Sched{}; return d },
		Rule:  "programmes of 1-5 (thorough: 1-10) rounds: writes/overwrites/deletes/transactions spread over several flushes, then usually a settle point (double flush + retirement of all but the current log file: the table files alone hold the database), then 0-3 of {TriggerCompaction, CompactRange, virtual sleep long enough for the automatic worker, reopen, compaction with the process killed at a chosen I/O point}. At every settle point and after every compaction that follows one without intervening writes the newest-wins merged view of the table files (harness-side sstable readers; level 0 newest first, then deeper levels) must equal the reference map and every table must be sorted and duplicate-free; after every compaction and every reopen the engine's gets and scan must equal the reference map. in 40% of the cases a third of the compaction steps run with one refused disk operation (create, write, sync or rename: the compaction may fail, content must not change); non-trivial = >=1 settle, >=1 compaction op, >=3 write steps",
	})
}
