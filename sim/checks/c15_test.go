package checks

import (
	"context"
	"fmt"
	"strings"
	"testing"
	"time"

	"github.com/KevoDB/kevo/pkg/wal"
	pb "github.com/KevoDB/kevo/proto/kevo/replication"
	"github.com/KevoDB/kevo/zsim/kit"
	"github.com/KevoDB/kevo/zsim/simnet"
	"github.com/KevoDB/kevo/zsim/simrt"
	"github.com/KevoDB/kevo/zsim/simsync"
	"google.golang.org/grpc/metadata"
)

// C15 — replicas cannot stall or fail the primary.
// A primary with 0-2 healthy replicas (the real Replica) and 1-3 misbehaving
// peers attached. A misbehaving peer is a scripted client of the replication
// service: it opens a stream and then never reads it, reads it slowly, reads
// but never acknowledges, acknowledges or negatively acknowledges nonsense
// (also while not reading), disconnects abruptly, or opens streams over and
// over. Meanwhile 1-3 client tasks use the primary (puts of up to 16 KB so
// that flow-control windows fill, gets, deletes, transactions, flushes).
// Oracles:
//   - every client operation on the primary returns without error, and none
//     takes longer than 5 virtual seconds (scheduler-injected stalls excluded);
//   - a peer whose connection was cut, and a peer that stopped reading while
//     more than its window was written, is no longer listed by
//     Primary.GetReplicaInfo once heartbeat timeout + 2 intervals + 5 s passed;
//   - the healthy replicas still reach the primary's final state (C14's bound).

type BadPeer struct {
	Kind    string `json:"kind"` // noread slowread noack garbage ack-while-stalled abrupt storm
	StartMs int64  `json:"start_ms"`
	ReadMs  int64  `json:"read_ms,omitempty"` // slowread: pause between reads
	AfterMs int64  `json:"after_ms,omitempty"`
}

type COp struct {
	K     string `json:"k"` // put get del txn flush sleep
	Key   int    `json:"key"`
	Len   int    `json:"len,omitempty"`
	N     int    `json:"n,omitempty"`
	D     int64  `json:"d,omitempty"`
	Tag   uint32 `json:"tag,omitempty"`
	Keys2 []int  `json:"keys2,omitempty"`
}

type StallCase struct {
	Sched   kit.Sched      `json:"sched"`
	PK      kit.Knobs      `json:"pknobs"`
	RK      kit.Knobs      `json:"rknobs"`
	Cfg     ReplCfg        `json:"cfg"`
	Link    simnet.LinkCfg `json:"link"`
	Healthy int            `json:"healthy"`
	Bad     []BadPeer      `json:"bad"`
	Clients [][]COp        `json:"clients"`
	NKeys   int            `json:"nkeys"`
	DiskUs  int            `json:"disk_us,omitempty"` // max virtual latency of a state-changing I/O on the primary
}

func c15key(client, i int) []byte { return []byte(fmt.Sprintf("c%d/k%02d", client, i)) }

const c15OpLimit = 5 * time.Second

func runC15(t *testing.T, c StallCase) *kit.Result {
	res := kit.NewResult()
	cfg := c.Sched.Config()
	cfg.Verbose = kit.Verbose
	var sim *simrt.Sim
	kit.RaceLogDelta() // (race-detector workers) forget what earlier runs reported
	opsDone := 0
	bytesWritten := 0
	dropChecks := 0
	statusCalls := 0
	out := simrt.Run(t, cfg, func() {
		sim = simrt.S
		cl := newReplCluster(c.Cfg, c.PK, c.RK, c.Healthy, c.Link)
		kit.TagNode(cl.fs, "n1")
		// Disk operations take (virtual) time: without it a client's whole
		// burst happens in one instant and no RPC of a peer ever arrives in
		// the middle of a write.
		cl.fs.Node("n1").Latency = time.Duration(c.DiskUs) * time.Microsecond
		fail := func(kind, sig, detail string) {
			if res.V == nil {
				res.V = &kit.Violation{Kind: kind, Signature: sig, Detail: detail}
			}
		}
		if err := cl.startPrimary(); err != nil {
			fail("open-error", "open-error:primary", err.Error())
			return
		}
		for i := 0; i < c.Healthy; i++ {
			if err := cl.startReplica(i); err != nil {
				fail("open-error", "open-error:replica", err.Error())
				return
			}
		}
		// ---- misbehaving peers
		type badState struct {
			link       *simnet.Link
			addr       string
			stoppedAt  int64 // unstalled time at which it became detectably dead (0: not yet)
			why        string
			streamOpen bool
		}
		bad := make([]*badState, len(c.Bad))
		stopBad := false
		for bi, bp := range c.Bad {
			bi, bp := bi, bp
			name := fmt.Sprintf("b%d", bi+1)
			bs := &badState{link: cl.net.NewLink(name, c.Link), addr: name + ":50053"}
			bad[bi] = bs
			simrt.GoNamed("peer-"+name+"-"+bp.Kind, func() {
				simrt.SetTag(name, 1)
				simrt.Sleep(time.Duration(bp.StartMs) * time.Millisecond)
				ctx, cancel := context.WithCancel(context.Background())
				defer cancel()
				open := func() (*simnet.Conn, pb.WALReplicationService_StreamWALClient, string) {
					conn, err := bs.link.Dial(ctx)
					if err != nil {
						return nil, nil, ""
					}
					st, err := conn.StreamWAL(ctx, &pb.WALStreamRequest{StartSequence: 1, ProtocolVersion: 1, ListenerAddress: bs.addr})
					if err != nil {
						return nil, nil, ""
					}
					sid := ""
					if md, err := st.Header(); err == nil {
						if v := md.Get("session-id"); len(v) > 0 {
							sid = v[0]
						}
					}
					bs.streamOpen = true
					return conn, st, sid
				}
				withSID := func(sid string) context.Context {
					if sid == "" {
						return ctx
					}
					return metadata.NewOutgoingContext(ctx, metadata.Pairs("session-id", sid))
				}
				switch bp.Kind {
				case "noread":
					// the application stops reading; the transport stays healthy
					open()
					for !stopBad {
						simrt.Sleep(time.Second)
					}
				case "slowread":
					_, st, _ := open()
					for !stopBad && st != nil {
						if _, err := st.Recv(); err != nil {
							return
						}
						simrt.Sleep(time.Duration(bp.ReadMs) * time.Millisecond)
					}
				case "noack":
					_, st, _ := open()
					for !stopBad && st != nil {
						if _, err := st.Recv(); err != nil {
							return
						}
					}
				case "acker":
					// a diligent peer: reads promptly and acknowledges everything it
					// received, as a complete replica implementation would
					conn, st, sid := open()
					for !stopBad && st != nil {
						m, err := st.Recv()
						if err != nil {
							return
						}
						if n := len(m.Entries); n > 0 {
							conn.Acknowledge(withSID(sid), &pb.Ack{AcknowledgedUpTo: m.Entries[n-1].SequenceNumber})
						}
					}
				case "garbage":
					conn, st, sid := open()
					if conn == nil {
						return
					}
					simrt.GoNamed("peer-"+name+"-reader", func() {
						simrt.SetTag(name, 1)
						for !stopBad {
							if _, err := st.Recv(); err != nil {
								return
							}
						}
					})
					for i := 0; !stopBad && i < 40; i++ {
						simrt.Sleep(time.Duration(bp.AfterMs+1) * time.Millisecond)
						switch i % 5 {
						case 0:
							conn.Acknowledge(withSID(sid), &pb.Ack{AcknowledgedUpTo: ^uint64(0)})
						case 1:
							conn.NegativeAcknowledge(withSID(sid), &pb.Nack{MissingFromSequence: 0})
						case 2:
							conn.Acknowledge(ctx, &pb.Ack{AcknowledgedUpTo: 3}) // no session id
						case 3:
							conn.NegativeAcknowledge(withSID(sid), &pb.Nack{MissingFromSequence: 1 << 40})
						case 4:
							conn.Acknowledge(withSID("replica-0"), &pb.Ack{AcknowledgedUpTo: 1})
						}
					}
				case "ack-while-stalled":
					conn, _, sid := open()
					if conn == nil {
						return
					}
					for i := 0; !stopBad; i++ {
						simrt.Sleep(time.Duration(bp.AfterMs+200) * time.Millisecond)
						if i%2 == 0 {
							conn.Acknowledge(withSID(sid), &pb.Ack{AcknowledgedUpTo: uint64(i)})
						} else {
							conn.NegativeAcknowledge(withSID(sid), &pb.Nack{MissingFromSequence: 1})
						}
					}
				case "abrupt":
					_, st, _ := open()
					if st == nil {
						return
					}
					simrt.Sleep(time.Duration(bp.AfterMs) * time.Millisecond)
					bs.link.ResetConns("peer vanished")
					res.Fault("net_peer_vanished", 1)
					bs.stoppedAt, bs.why = simrt.NowUnstalled(), "its connection was cut"
				case "storm":
					for i := 0; !stopBad && i < 30; i++ {
						open()
						simrt.Sleep(time.Duration(bp.AfterMs+20) * time.Millisecond)
					}
					for !stopBad {
						simrt.Sleep(time.Second)
					}
				}
			})
		}
		// ---- clients of the primary
		type cstate struct {
			op    string
			since int64
			busy  bool
		}
		cs := make([]cstate, len(c.Clients))
		var wg simsync.WaitGroup
		m := make([]map[string][]byte, len(c.Clients)) // per-client model (disjoint key sets)
		for ci, ops := range c.Clients {
			ci, ops := ci, ops
			m[ci] = map[string][]byte{}
			wg.Add(1)
			simrt.GoNamed(fmt.Sprintf("client%d", ci), func() {
				defer wg.Done()
				kit.TagNode(cl.fs, "n1")
				for oi, op := range ops {
					if res.V != nil {
						return
					}
					cs[ci] = cstate{op: op.K, since: simrt.NowUnstalled(), busy: true}
					var err error
					switch op.K {
					case "put":
						v := kit.MakeValue(op.Tag, op.Len)
						err = cl.pe.Put(c15key(ci, op.Key), v)
						if err == nil {
							m[ci][string(c15key(ci, op.Key))] = v
							bytesWritten += op.Len
						}
					case "del":
						err = cl.pe.Delete(c15key(ci, op.Key))
						if err == nil {
							delete(m[ci], string(c15key(ci, op.Key)))
						}
					case "get":
						_, _, err = kit.GetKey(cl.pe, c15key(ci, op.Key))
					case "txn":
						tx, e := cl.pe.BeginTransaction(false)
						if e != nil {
							err = fmt.Errorf("begin: %w", e)
							break
						}
						staged := map[string][]byte{}
						for j, k := range op.Keys2 {
							v := kit.MakeValue(op.Tag+uint32(j)*7919, op.Len)
							if e := tx.Put(c15key(ci, k), v); e != nil {
								err = e
							}
							staged[string(c15key(ci, k))] = v
						}
						if err == nil {
							err = tx.Commit()
						} else {
							tx.Rollback()
						}
						if err == nil {
							for k, v := range staged {
								m[ci][k] = v
								bytesWritten += len(v)
							}
						}
					case "batch":
						var ents []*wal.Entry
						staged := map[string][]byte{}
						for j, k := range op.Keys2 {
							v := kit.MakeValue(op.Tag+uint32(j)*7919, op.Len)
							ents = append(ents, &wal.Entry{Type: wal.OpTypePut, Key: c15key(ci, k), Value: v})
							staged[string(c15key(ci, k))] = v
						}
						err = cl.pe.ApplyBatch(ents)
						if err == nil {
							for k, v := range staged {
								m[ci][k] = v
								bytesWritten += len(v)
							}
						}
					case "burst":
						// many small writes in a row: more than the primary queues per replica
						for j := 0; j < op.N && err == nil; j++ {
							v := kit.MakeValue(op.Tag+uint32(j), 6)
							k := c15key(ci, (op.Key+j)%c.NKeys)
							err = cl.pe.Put(k, v)
							if err == nil {
								m[ci][string(k)] = v
								bytesWritten += len(v)
							}
							cs[ci].since = simrt.NowUnstalled()
						}
					case "flush":
						if e := cl.pe.FlushImMemTables(); e != nil {
							res.Probe("primary_flush_error")
						}
					case "sleep":
						cs[ci].busy = false
						simrt.Sleep(time.Duration(op.D) * time.Millisecond)
					}
					took := simrt.NowUnstalled() - cs[ci].since
					cs[ci].busy = false
					if err != nil {
						fail("primary-op-failed", "primary-op-failed:"+op.K, fmt.Sprintf("client %d op %d %s on the primary failed: %v", ci, oi, op.K, err))
						return
					}
					if op.K != "sleep" && took > int64(c15OpLimit) {
						fail("primary-op-slow", "primary-op-slow:"+op.K, fmt.Sprintf("client %d op %d %s took %v of virtual time", ci, oi, op.K, time.Duration(took)))
						return
					}
					opsDone++
				}
			})
		}
		done := false
		simrt.GoNamed("waiter", func() { wg.Wait(); done = true })
		// someone watches the topology while all this goes on (the service's
		// GetNodeInfo and the manager's Status), as a client library or an
		// operator's tooling would
		if cl.pmgr != nil {
			simrt.GoNamed("monitor", func() {
				kit.TagNode(cl.fs, "n1")
				for !done && res.V == nil {
					simrt.Sleep(time.Duration(150+simrt.Intn(500)) * time.Millisecond)
					cl.pmgr.GetNodeInfo()
					cl.pmgr.Status()
					statusCalls++
				}
			})
		}
		for !done && res.V == nil {
			simrt.Sleep(500 * time.Millisecond)
			now := simrt.NowUnstalled()
			for ci := range cs {
				if cs[ci].busy && now-cs[ci].since > int64(c15OpLimit) {
					var peers []string
					for _, bp := range c.Bad {
						peers = append(peers, bp.Kind)
					}
					fail("primary-op-stalled", "primary-op-stalled:"+cs[ci].op, fmt.Sprintf("client %d has been inside %s on the primary for %v of virtual time (peers attached: %s, %d healthy replicas, %d bytes written so far, window %d)\n%s",
						ci, cs[ci].op, time.Duration(now-cs[ci].since), strings.Join(peers, ","), c.Healthy, bytesWritten, c.Link.Window, simrt.Describe()))
				}
			}
		}
		if res.V != nil {
			return
		}
		// ---- dead peers leave the reported topology
		hb := time.Duration(c.Cfg.HBTimeoutMs+2*c.Cfg.HBIntervalMs)*time.Millisecond + 5*time.Second
		for bi, bs := range bad {
			bp := c.Bad[bi]
			if bp.Kind == "noread" && bs.streamOpen && cl.net.Stats.SendBlocked > 0 && bs.stoppedAt == 0 {
				// it stopped reading and a send towards some peer ran into a full
				// window; only judge it if its own stream is the full one
				if bs.link.OpenStreams() > 0 && linkBlocked(bs.link) {
					bs.stoppedAt, bs.why = simrt.NowUnstalled(), "it stopped reading and its window is full"
				}
			}
			if bs.stoppedAt == 0 {
				continue
			}
			deadline := bs.stoppedAt + int64(hb)
			for simrt.NowUnstalled() < deadline {
				simrt.Sleep(time.Second)
			}
			dropChecks++
			listed := cl.primary.GetReplicaInfo()
			if cl.pmgr != nil {
				_, _, listed, _, _ = cl.pmgr.GetNodeInfo()
			}
			for _, info := range listed {
				if info.Address == bs.addr {
					fail("dead-peer-still-listed", "dead-peer-still-listed:"+bp.Kind, fmt.Sprintf("peer %s (%s): %s %v ago, heartbeat interval %dms timeout %dms, and Primary.GetReplicaInfo still lists it (available=%v, last sequence %d)",
						bs.addr, bp.Kind, bs.why, time.Duration(simrt.NowUnstalled()-bs.stoppedAt), c.Cfg.HBIntervalMs, c.Cfg.HBTimeoutMs, info.Available, info.LastSequence))
				}
			}
		}
		if res.V != nil {
			return
		}
		// ---- the healthy replicas are still served
		want := map[string][]byte{}
		for _, mm := range m {
			for k, v := range mm {
				want[k] = v
			}
		}
		if ps, err := scanState(cl.pe); err != nil {
			fail("primary-error", "primary-error:scan", err.Error())
			return
		} else if d := kit.EqualState(ps, want); d != "" {
			fail("primary-state", "primary-state-differs-from-model", d)
			return
		}
		start := simrt.NowUnstalled()
		for _, rn := range cl.replicas {
			for {
				rs, err := scanState(rn.e)
				if err != nil {
					fail("replica-error", "replica-error:scan", err.Error())
					return
				}
				d := kit.EqualState(rs, want)
				if d == "" {
					break
				}
				if simrt.NowUnstalled()-start > int64(120*time.Second) {
					fail("healthy-replica-starved", "healthy-replica-starved", fmt.Sprintf("healthy replica %s did not reach the primary's state within 120 virtual seconds while misbehaving peers were attached: %s (state machine in %s)", rn.name, d, rn.rep.GetStateString()))
					return
				}
				simrt.Sleep(250 * time.Millisecond)
			}
		}
		stopBad = true
		netFaults(res, cl.net)
		for i := range cl.replicas {
			cl.crashReplica(i)
		}
		for _, bs := range bad {
			bs.link.ResetConns("end of run")
		}
		cl.stopPrimary()
	})
	res.Absorb(out)
	if sim != nil && kit.Verbose {
		res.Trace = sim.TraceLines()
	}
	if simrt.RaceEnabled {
		// every fourth worker runs a -race binary: an unsynchronised pair of
		// accesses inside kevo's replication code is reported although the two
		// tasks ran one after the other (races between parts of the harness are
		// filtered out)
		res.Probe("runs_under_the_race_detector")
		if report := kit.KevoRaces(kit.RaceLogDelta()); report != "" {
			res.V = &kit.Violation{Kind: "data-race", Signature: kit.RaceSignature(report), Detail: clipReport(report)}
			res.Probes["race_reports"] += int64(strings.Count(report, "WARNING: DATA RACE"))
		}
	}
	res.Probes["primary_ops_completed"] += int64(opsDone)
	res.Probes["bytes_written_to_primary"] += int64(bytesWritten)
	res.Probes["dead_peer_topology_checks"] += int64(dropChecks)
	res.Probes["topology_polls_during_the_run"] += int64(statusCalls)
	for _, bp := range c.Bad {
		res.Fault("peer_"+bp.Kind, 1)
	}
	res.Nontrivial = opsDone >= 3 && len(c.Bad) > 0 && res.V == nil
	res.Note = fmt.Sprintf("%d healthy, %d misbehaving peers, %d ops, %d bytes", c.Healthy, len(c.Bad), opsDone, bytesWritten)
	return res
}

// linkBlocked: does some stream of the link hold a full window?
func linkBlocked(l *simnet.Link) bool { return l.WindowFull() }

func TestC15(t *testing.T) {
	kit.Main(t, kit.Spec[StallCase]{
		ID: "C15",
		Gen: func(r *kit.Rand, tier string) StallCase {
			c := StallCase{Sched: kit.GenSched(r, "net"), PK: kit.GenKnobs(r), RK: kit.GenKnobs(r), Cfg: genReplCfg(r), Link: genLink(r), Healthy: r.Pick(3, 4, 2), NKeys: r.Range(2, 8)}
			c.Sched.MaxVirtS = 24 * 3600
			c.Sched.MaxSteps = 6_000_000
			// No scheduler-injected stalls here: the oracle is about what the
			// peers do to the primary's operations. A primary thread parked for
			// longer than kevo's 3 x 10 ms wait for a log rotation makes a write
			// fail with "WAL is rotating" with or without replicas attached.
			c.Sched.TimePassP = 0
			c.DiskUs = kit.PickOf(r, 0, 50, 300, 1000)
			c.Link.Window = kit.PickOf(r, 64<<10, 64<<10, 256<<10)
			c.PK.MemTableSize = kit.PickOf(r, int64(16384), 1<<20, 32<<20)
			c.RK.MemTableSize = kit.PickOf(r, int64(16384), 32<<20)
			c.PK.CompactionInterval, c.RK.CompactionInterval = 5, 5
			if r.Bool(0.6) {
				c.Cfg.HBIntervalMs, c.Cfg.HBTimeoutMs = 1000, 3000
			}
			nb := r.Range(1, 3)
			for i := 0; i < nb; i++ {
				c.Bad = append(c.Bad, BadPeer{
					Kind:    kit.PickOf(r, "noread", "noread", "slowread", "noack", "acker", "acker", "garbage", "ack-while-stalled", "ack-while-stalled", "abrupt", "storm"),
					StartMs: int64(kit.PickOf(r, 0, 0, 50, 700)),
					ReadMs:  int64(kit.PickOf(r, 100, 1000, 5000)),
					AfterMs: int64(kit.PickOf(r, 0, 100, 1500)),
				})
			}
			nc := r.Range(1, 3)
			var tag uint32
			maxOps := 25
			if tier == "thorough" {
				maxOps = 60
			}
			for ci := 0; ci < nc; ci++ {
				var ops []COp
				for j, n := 0, r.Range(3, maxOps); j < n; j++ {
					tag++
					op := COp{Key: r.Intn(c.NKeys), Tag: tag, Len: kit.PickOf(r, 10, 200, 4000, 16000, 16000)}
					switch r.Pick(10, 3, 1, 2, 2, 1, 3, 1) {
					case 7:
						op.K, op.N = "burst", r.Range(40, 160)
						tag += 200
					case 0:
						op.K = "put"
					case 1:
						op.K = "get"
					case 2:
						op.K = "del"
					case 3:
						op.K = "txn"
						for k := 0; k < r.Range(1, 4); k++ {
							op.Keys2 = append(op.Keys2, (op.Key+k)%c.NKeys)
						}
						tag += 4
						if op.Len > 4000 {
							op.Len = 4000
						}
					case 4:
						op.K = "batch"
						for k := 0; k < r.Range(1, 4); k++ {
							op.Keys2 = append(op.Keys2, (op.Key+k)%c.NKeys)
						}
						tag += 4
						if op.Len > 4000 {
							op.Len = 4000
						}
					case 5:
						op.K = "flush"
					case 6:
						op.K, op.D = "sleep", int64(kit.PickOf(r, 1, 50, 300, 1200))
					}
					ops = append(ops, op)
				}
				c.Clients = append(c.Clients, ops)
			}
			return c
		},
		Run: runC15,
		Shrink: func(c StallCase) []StallCase {
			var out []StallCase
			if c.Healthy > 0 {
				d := c
				d.Healthy = 0
				out = append(out, d)
			}
			if len(c.Bad) > 1 {
				for i := range c.Bad {
					d := c
					d.Bad = append(append([]BadPeer(nil), c.Bad[:i]...), c.Bad[i+1:]...)
					out = append(out, d)
				}
			}
			if len(c.Clients) > 1 {
				for i := range c.Clients {
					d := c
					d.Clients = append(append([][]COp(nil), c.Clients[:i]...), c.Clients[i+1:]...)
					out = append(out, d)
				}
			}
			for i, ops := range c.Clients {
				if len(ops) > 1 {
					for _, half := range [][]COp{ops[:len(ops)/2], ops[len(ops)/2:]} {
						d := c
						d.Clients = append([][]COp(nil), c.Clients...)
						d.Clients[i] = half
						out = append(out, d)
					}
				}
				for j := range ops {
					if len(ops) > 1 && len(ops) <= 8 {
						d := c
						d.Clients = append([][]COp(nil), c.Clients...)
						d.Clients[i] = append(append([]COp(nil), ops[:j]...), ops[j+1:]...)
						out = append(out, d)
					}
				}
			}
			return out
		},
		Strip: func(c StallCase) any { d := c; d.Sched = kit.Sched{}; return d },
		Rule:  "primary with 0-2 healthy replicas and 1-3 misbehaving peers {never reads, reads every 0.1-5 s, reads but never acknowledges, reads and acknowledges everything at once, sends nonsense Ack/Nack (max uint64, 0, 2^40, no or unknown session id), Acks/Nacks while not reading, vanishes (connection cut), opens 30 streams in a row} starting 0-700 ms into the run; 1-3 clients each 3-25 (thorough: 3-60) operations on the primary: put/get/delete/transaction/ApplyBatch/flush/pause/burst of 40-160 small puts with values of 10 B-16 KB over 2-8 keys; window 64-256 KB; primary disk latency 0-1 ms per I/O; heartbeat 1 s/3 s (60%) or as drawn; violation = an operation on the primary fails, takes or has been taking > 5 unstalled virtual seconds, a vanished or window-blocked peer is still in Primary.GetReplicaInfo after heartbeat timeout + 2 intervals + 5 s, or a healthy replica does not reach the primary's state within 120 s. non-trivial = >=3 primary operations completed with >=1 misbehaving peer attached",
	})
}
