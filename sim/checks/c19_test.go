package checks

import (
	"bytes"
	"context"
	"fmt"
	"github.com/KevoDB/kevo/pkg/replication"
	"github.com/KevoDB/kevo/zsim/simnet"
	"google.golang.org/grpc/codes"
	"google.golang.org/grpc/status"
	"net"
	"sort"
	"testing"
	"time"

	"google.golang.org/grpc/metadata"
	"google.golang.org/protobuf/proto"

	"github.com/KevoDB/kevo/pkg/grpc/service"
	"github.com/KevoDB/kevo/pkg/transaction"
	pb "github.com/KevoDB/kevo/proto/kevo"
	"github.com/KevoDB/kevo/zsim/kit"
	"github.com/KevoDB/kevo/zsim/simrt"
)

// C19 — the network API behaves like the embedded API.
// KevoServiceServer + the real transaction registry + the real engine; the
// handlers are called in-process (stub: gRPC transport), requests and responses
// pass through proto.Marshal/Unmarshal so that nil/empty byte semantics are
// those of the wire. Request programmes with transactions interleaved by
// handle are compared with the same reference map that judges the embedded
// API; rejected requests must leave everything - data and handles - as it was.

type SvcOp struct {
	FailSend int     `json:"fail_send,omitempty"` // scan/txscan: the client abandons the stream at its n-th result
	DeadCtx  bool    `json:"dead_ctx,omitempty"`  // commit/rollback: the request arrives with its context already cancelled
	K        string  `json:"k"`                   // get put del batch scan begin txget txput txdel txscan commit rollback nodeinfo sleep
	Key      []byte  `json:"key,omitempty"`
	KeyLen   int     `json:"key_len,omitempty"` // >0: a synthetic key of this length (boundary sizes)
	Tag      uint32  `json:"tag,omitempty"`
	Len      int     `json:"len,omitempty"`
	Sub      []SvcOp `json:"sub,omitempty"`
	NBatch   int     `json:"nbatch,omitempty"` // batch of this many synthetic puts
	Start    []byte  `json:"start,omitempty"`
	End      []byte  `json:"end,omitempty"`
	Prefix   []byte  `json:"prefix,omitempty"`
	Suffix   []byte  `json:"suffix,omitempty"`
	Limit    int32   `json:"limit,omitempty"`
	RO       bool    `json:"ro,omitempty"`
	H        int     `json:"h,omitempty"` // handle slot: index into the list of handles ever created; -1 unknown id
	D        int64   `json:"d,omitempty"`
}

type SvcCase struct {
	Sched   kit.Sched `json:"sched"`
	Knobs   kit.Knobs `json:"knobs"`
	Ops     []SvcOp   `json:"ops"`
	Primary bool      `json:"primary,omitempty"` // the node runs replication as a primary (no replica attached)
}

type collectStream[T any] struct {
	ctx    context.Context
	msgs   []*T
	failAt int // the n-th Send fails: the client has gone away (0: never)
}

func (s *collectStream[T]) Send(m *T) error {
	if s.failAt > 0 && len(s.msgs)+1 >= s.failAt {
		return status.Error(codes.Canceled, "context canceled")
	}
	// through the wire format
	b, err := proto.Marshal(any(m).(proto.Message))
	if err != nil {
		return err
	}
	out := new(T)
	if err := proto.Unmarshal(b, any(out).(proto.Message)); err != nil {
		return err
	}
	s.msgs = append(s.msgs, out)
	return nil
}
func (s *collectStream[T]) SetHeader(metadata.MD) error  { return nil }
func (s *collectStream[T]) SendHeader(metadata.MD) error { return nil }
func (s *collectStream[T]) SetTrailer(metadata.MD)       {}
func (s *collectStream[T]) Context() context.Context     { return s.ctx }
func (s *collectStream[T]) SendMsg(m any) error          { return nil }
func (s *collectStream[T]) RecvMsg(m any) error          { return nil }

func wire[T any](m *T) *T {
	b, err := proto.Marshal(any(m).(proto.Message))
	if err != nil {
		panic(err)
	}
	out := new(T)
	if err := proto.Unmarshal(b, any(out).(proto.Message)); err != nil {
		panic(err)
	}
	return out
}

func (o SvcOp) key() []byte {
	if o.KeyLen > 0 {
		k := bytes.Repeat([]byte{'K'}, o.KeyLen)
		copy(k, fmt.Sprintf("L%05d-", o.KeyLen))
		return k
	}
	return o.Key
}

type svcHandle struct {
	id     string
	ro     bool
	open   bool
	buffer map[string]*kit.W
}

func runC19(t *testing.T, c SvcCase) *kit.Result {
	res := kit.NewResult()
	cfg := c.Sched.Config()
	cfg.Verbose = kit.Verbose
	var sim *simrt.Sim
	out := simrt.Run(t, cfg, func() {
		sim = simrt.S
		fs := kit.NewFS()
		kit.TagNode(fs, "n1")
		e, err := kit.OpenEngine("n1", c.Knobs)
		if err != nil {
			res.V = &kit.Violation{Kind: "open-error", Signature: "open-error:first", Detail: err.Error()}
			return
		}
		reg := transaction.NewRegistryWithTTL(5*time.Minute, 2*time.Minute, 75, 90)
		var pmgr *replication.Manager
		if c.Primary && replication.VerifHooked {
			// replication.Manager in primary mode, listener simulated, nobody connects
			replication.VerifListen = func(addr string) (net.Listener, error) { return simnet.NewListener(addr), nil }
			mc := replication.DefaultManagerConfig()
			mc.Enabled, mc.Mode, mc.ListenAddr = true, replication.ReplicationModePrimary, "n1:50052"
			if pmgr, err = replication.NewManager(e, mc); err == nil {
				err = pmgr.Start()
			}
			if err != nil {
				res.V = &kit.Violation{Kind: "open-error", Signature: "open-error:replication-manager", Detail: err.Error()}
				return
			}
		}
		var svc *service.KevoServiceServer
		if pmgr != nil {
			svc = service.NewKevoServiceServer(e, reg, pmgr)
		} else {
			svc = service.NewKevoServiceServer(e, reg, nil)
		}
		ctx := context.WithValue(context.Background(), "peer", "client-1")
		m := kit.NewModel()
		var handles []*svcHandle
		fail := func(v *kit.Violation) {
			if res.V == nil {
				res.V = v
			}
		}
		validKey := func(k []byte) bool { return len(k) > 0 && len(k) <= 4096 }
		view := func(h *svcHandle) map[string][]byte {
			st := map[string][]byte{}
			for k, v := range m.State(m.Len()) {
				st[k] = v
			}
			if h != nil {
				for k, w := range h.buffer {
					if w.Del {
						delete(st, k)
					} else {
						st[k] = w.Val
					}
				}
			}
			return st
		}
		expectScan := func(st map[string][]byte, o SvcOp) []kit.KV {
			var outKV []kit.KV
			for _, kv := range kit.SortedKVs(st) {
				k := kv.Key
				ok := true
				switch {
				case len(o.Prefix) > 0 && len(o.Suffix) > 0:
					ok = bytes.HasPrefix(k, o.Prefix) && bytes.HasSuffix(k, o.Suffix)
				case len(o.Prefix) > 0:
					ok = bytes.HasPrefix(k, o.Prefix)
				case len(o.Suffix) > 0:
					ok = bytes.HasSuffix(k, o.Suffix)
				case len(o.Start) > 0 || len(o.End) > 0:
					ok = (len(o.Start) == 0 || bytes.Compare(k, o.Start) >= 0) && (len(o.End) == 0 || bytes.Compare(k, o.End) < 0)
				}
				if ok {
					outKV = append(outKV, kv)
				}
				if o.Limit > 0 && int32(len(outKV)) >= o.Limit {
					break
				}
			}
			return outKV
		}
		handleOf := func(o SvcOp) (*svcHandle, string) {
			if o.H < 0 || len(handles) == 0 {
				return nil, "tx-unknown-999"
			}
			h := handles[o.H%len(handles)]
			return h, h.id
		}
		// after a rejected request nothing may have changed: data and handles
		unchanged := func(i int, o SvcOp, what string) {
			for _, h := range handles {
				if !h.open {
					continue
				}
				if _, ok := reg.Get(h.id); !ok {
					fail(&kit.Violation{Kind: "rejected-request-side-effect", Signature: "rejected-request-loses-transaction:" + o.K, Detail: fmt.Sprintf("op %d %s (%s) was rejected, but transaction %s is gone from the server afterwards", i, o.K, what, h.id)})
					return
				}
			}
			for _, k := range m.Keys() {
				r, err := svc.Get(ctx, wire(&pb.GetRequest{Key: k}))
				want, wf := m.Get(k)
				if err != nil || r.Found != wf || (wf && !bytes.Equal(r.Value, want)) {
					fail(&kit.Violation{Kind: "rejected-request-side-effect", Signature: "rejected-request-changes-data:" + o.K, Detail: fmt.Sprintf("op %d %s (%s) was rejected, but key %s now reads (%s,%v), want (%s,%v)", i, o.K, what, kit.Q(k), kit.Q(r.GetValue()), r.GetFound(), kit.Q(want), wf)})
					return
				}
			}
		}
		rejected := 0
		abandonedScans := 0
		for i, o := range c.Ops {
			if res.V != nil {
				break
			}
			simrt.Note("op %d %s", i, o.K)
			switch o.K {
			case "sleep":
				simrt.Sleep(time.Duration(o.D) * time.Millisecond)
			case "get":
				k := o.key()
				r, err := svc.Get(ctx, wire(&pb.GetRequest{Key: k}))
				if !validKey(k) {
					if err == nil {
						fail(&kit.Violation{Kind: "limit", Signature: "get-accepts-invalid-key", Detail: fmt.Sprintf("op %d: Get with a %d-byte key was accepted", i, len(k))})
					}
					rejected++
					break
				}
				want, wf := m.Get(k)
				if err != nil {
					fail(&kit.Violation{Kind: "service-error", Signature: "get-error", Detail: fmt.Sprintf("op %d Get(%s): %v", i, kit.Q(k), err)})
					break
				}
				r = wire(r)
				if r.Found != wf || (wf && !bytes.Equal(r.Value, want)) {
					fail(&kit.Violation{Kind: "service-mismatch", Signature: "get-mismatch", Detail: fmt.Sprintf("op %d Get(%s) = (%s,%v); the embedded API gives (%s,%v)", i, kit.Q(k), kit.Q(r.Value), r.Found, kit.Q(want), wf)})
				}
			case "put", "del":
				k := o.key()
				var err error
				var val []byte
				if o.K == "put" {
					val = kit.MakeValue(o.Tag, o.Len)
					_, err = svc.Put(ctx, wire(&pb.PutRequest{Key: k, Value: val, Sync: true}))
				} else {
					_, err = svc.Delete(ctx, wire(&pb.DeleteRequest{Key: k, Sync: true}))
				}
				legal := validKey(k) && len(val) <= 10*1024*1024
				if !legal {
					rejected++
					if err == nil {
						fail(&kit.Violation{Kind: "limit", Signature: o.K + "-accepts-out-of-limit", Detail: fmt.Sprintf("op %d: %s with a %d-byte key and %d-byte value was accepted", i, o.K, len(k), len(val))})
						break
					}
					unchanged(i, o, "out of limits")
					break
				}
				if err != nil {
					res.Probe("write_errors")
					unchanged(i, o, "error: "+err.Error())
					break
				}
				m.Apply([]kit.W{{Key: k, Val: val, Del: o.K == "del"}})
			case "batch":
				req := &pb.BatchWriteRequest{Sync: true}
				var ws []kit.W
				legal := true
				if o.NBatch > 0 {
					for j := 0; j < o.NBatch; j++ {
						k := []byte(fmt.Sprintf("bulk/%05d", j%1200))
						v := []byte(fmt.Sprintf("b%d-%d", o.Tag, j))
						req.Operations = append(req.Operations, &pb.Operation{Type: pb.Operation_PUT, Key: k, Value: v})
						ws = append(ws, kit.W{Key: k, Val: v})
					}
					legal = o.NBatch <= 1000
				}
				for _, s := range o.Sub {
					k := s.key()
					if s.K == "put" {
						v := kit.MakeValue(s.Tag, s.Len)
						req.Operations = append(req.Operations, &pb.Operation{Type: pb.Operation_PUT, Key: k, Value: v})
						ws = append(ws, kit.W{Key: k, Val: v})
					} else {
						req.Operations = append(req.Operations, &pb.Operation{Type: pb.Operation_DELETE, Key: k})
						ws = append(ws, kit.W{Key: k, Del: true})
					}
					if !validKey(k) {
						legal = false
					}
				}
				_, err := svc.BatchWrite(ctx, wire(req))
				if !legal {
					rejected++
					if err == nil {
						fail(&kit.Violation{Kind: "limit", Signature: "batch-accepts-out-of-limit", Detail: fmt.Sprintf("op %d: BatchWrite with %d operations (invalid key inside or too many) was accepted", i, len(req.Operations))})
						break
					}
					unchanged(i, o, "out of limits")
					break
				}
				if err != nil {
					res.Probe("write_errors")
					unchanged(i, o, "error: "+err.Error())
					break
				}
				if len(ws) > 0 {
					m.Apply(ws)
				}
			case "scan", "txscan":
				var got []kit.KV
				var err error
				var h *svcHandle
				if o.K == "scan" {
					st := &collectStream[pb.ScanResponse]{ctx: ctx, failAt: o.FailSend}
					err = svc.Scan(wire(&pb.ScanRequest{Prefix: o.Prefix, Suffix: o.Suffix, StartKey: o.Start, EndKey: o.End, Limit: o.Limit}), st)
					for _, r := range st.msgs {
						got = append(got, kit.KV{Key: r.Key, Val: r.Value})
					}
				} else {
					var id string
					h, id = handleOf(o)
					st := &collectStream[pb.TxScanResponse]{ctx: ctx, failAt: o.FailSend}
					err = svc.TxScan(wire(&pb.TxScanRequest{TransactionId: id, Prefix: o.Prefix, Suffix: o.Suffix, StartKey: o.Start, EndKey: o.End, Limit: o.Limit}), st)
					for _, r := range st.msgs {
						got = append(got, kit.KV{Key: r.Key, Val: r.Value})
					}
					if h == nil || !h.open {
						if err == nil {
							fail(&kit.Violation{Kind: "handle", Signature: "txscan-on-finished-or-unknown-handle", Detail: fmt.Sprintf("op %d: TxScan on handle %q (not open) succeeded", i, id)})
						}
						rejected++
						break
					}
				}
				want := expectScan(view(h), o)
				if o.FailSend > 0 && len(want) >= o.FailSend {
					// the stream broke part-way: whatever the handler returns, nothing
					// may be left behind (later requests show it)
					abandonedScans++
					break
				}
				if err != nil {
					fail(&kit.Violation{Kind: "service-error", Signature: o.K + "-error", Detail: fmt.Sprintf("op %d %s: %v", i, o.K, err)})
					break
				}
				for j := range got {
					if got[j].Val == nil {
						got[j].Val = []byte{}
					}
				}
				if v := compareScan(got, want, fmt.Sprintf("op %d %s(prefix=%s suffix=%s range=[%s,%s) limit=%d)", i, o.K, kit.Q(o.Prefix), kit.Q(o.Suffix), kit.Q(o.Start), kit.Q(o.End), o.Limit)); v != nil {
					v.Signature = "service-" + v.Signature
					fail(v)
				}
			case "begin":
				r, err := svc.BeginTransaction(ctx, wire(&pb.BeginTransactionRequest{ReadOnly: o.RO}))
				if err != nil {
					fail(&kit.Violation{Kind: "service-error", Signature: "begin-error", Detail: fmt.Sprintf("op %d BeginTransaction(ro=%v): %v", i, o.RO, err)})
					break
				}
				handles = append(handles, &svcHandle{id: r.TransactionId, ro: o.RO, open: true, buffer: map[string]*kit.W{}})
			case "txget", "txput", "txdel":
				h, id := handleOf(o)
				k := o.key()
				var err error
				var gr *pb.TxGetResponse
				var val []byte
				switch o.K {
				case "txget":
					gr, err = svc.TxGet(ctx, wire(&pb.TxGetRequest{TransactionId: id, Key: k}))
				case "txput":
					val = kit.MakeValue(o.Tag, o.Len)
					_, err = svc.TxPut(ctx, wire(&pb.TxPutRequest{TransactionId: id, Key: k, Value: val}))
				default:
					_, err = svc.TxDelete(ctx, wire(&pb.TxDeleteRequest{TransactionId: id, Key: k}))
				}
				if h == nil || !h.open {
					rejected++
					if err == nil {
						fail(&kit.Violation{Kind: "handle", Signature: o.K + "-on-finished-or-unknown-handle", Detail: fmt.Sprintf("op %d: %s on handle %q (not open) succeeded", i, o.K, id)})
					}
					break
				}
				if !validKey(k) || (o.K != "txget" && h.ro) || (o.K == "txput" && len(val) > 10*1024*1024) {
					rejected++
					if err == nil {
						fail(&kit.Violation{Kind: "limit", Signature: o.K + "-accepts-invalid-request", Detail: fmt.Sprintf("op %d: %s with a %d-byte key and a %d-byte value on a read-only=%v transaction was accepted", i, o.K, len(k), len(val), h.ro)})
						break
					}
					unchanged(i, o, "invalid request inside a transaction")
					break
				}
				if err != nil {
					fail(&kit.Violation{Kind: "service-error", Signature: o.K + "-error", Detail: fmt.Sprintf("op %d %s(%s) on %s: %v", i, o.K, kit.Q(k), id, err)})
					break
				}
				switch o.K {
				case "txget":
					gr = wire(gr)
					st := view(h)
					want, wf := st[string(k)]
					m.Touch(k)
					if gr.Found != wf || (wf && !bytes.Equal(gr.Value, want)) {
						fail(&kit.Violation{Kind: "service-mismatch", Signature: "txget-mismatch", Detail: fmt.Sprintf("op %d TxGet(%s) on %s = (%s,%v), want (%s,%v)", i, kit.Q(k), id, kit.Q(gr.Value), gr.Found, kit.Q(want), wf)})
					}
				case "txput":
					h.buffer[string(k)] = &kit.W{Key: k, Val: val}
					m.Touch(k)
				default:
					h.buffer[string(k)] = &kit.W{Key: k, Del: true}
					m.Touch(k)
				}
			case "commit", "rollback":
				h, id := handleOf(o)
				var err error
				cctx := ctx
				if o.DeadCtx {
					// the caller gave up (deadline, cancel) while the request was on
					// its way: whatever the handler answers, the transaction must end
					// one way or the other and nothing may stay locked
					dctx, cancel := context.WithCancel(ctx)
					cancel()
					cctx = dctx
				}
				if o.K == "commit" {
					_, err = svc.CommitTransaction(cctx, wire(&pb.CommitTransactionRequest{TransactionId: id}))
				} else {
					_, err = svc.RollbackTransaction(cctx, wire(&pb.RollbackTransactionRequest{TransactionId: id}))
				}
				if h == nil || !h.open {
					rejected++
					if err == nil {
						fail(&kit.Violation{Kind: "handle", Signature: o.K + "-on-finished-or-unknown-handle", Detail: fmt.Sprintf("op %d: %s of handle %q, which is not open, succeeded", i, o.K, id)})
					}
					unchanged(i, o, "finished or unknown handle")
					break
				}
				h.open = false
				if err != nil {
					res.Probe("commit_errors")
					break
				}
				if o.K == "commit" && !h.ro && len(h.buffer) > 0 {
					var ws []kit.W
					for _, k := range kit.SortedKeys(h.buffer) {
						ws = append(ws, *h.buffer[k])
					}
					m.Apply(ws)
				}
			case "nodeinfo":
				// (the last synced sequence also moves when the flush goroutine rotates
				// the log: the manager is asked before and after the service)
				var seqBefore uint64
				if pmgr != nil {
					_, _, _, seqBefore, _ = pmgr.GetNodeInfo()
				}
				r, err := svc.GetNodeInfo(ctx, wire(&pb.GetNodeInfoRequest{}))
				if pmgr != nil {
					// the service must pass on what the replication manager says
					role, addr, replicas, lastSeq, ro := pmgr.GetNodeInfo()
					if err != nil || r.NodeRole != pb.GetNodeInfoResponse_PRIMARY || role != replication.ReplicationModePrimary || r.PrimaryAddress != addr || len(r.Replicas) != len(replicas) || r.LastSequence < seqBefore || r.LastSequence > lastSeq || r.ReadOnly != ro || ro {
						fail(&kit.Violation{Kind: "service-mismatch", Signature: "nodeinfo-primary", Detail: fmt.Sprintf("op %d GetNodeInfo on a primary without replicas: service says %v (err %v), the replication manager says role=%s addr=%s replicas=%d last_sequence=%d read_only=%v", i, r, err, role, addr, len(replicas), lastSeq, ro)})
					}
				} else if err != nil || r.NodeRole != pb.GetNodeInfoResponse_STANDALONE || r.ReadOnly {
					fail(&kit.Violation{Kind: "service-mismatch", Signature: "nodeinfo-standalone", Detail: fmt.Sprintf("op %d GetNodeInfo on a standalone node: %v %v", i, r, err)})
				}
			}
		}
		// the data behind the service equals the reference map (read through the embedded API)
		if res.V == nil {
			open := 0
			for _, h := range handles {
				if h.open {
					open++
					svc.RollbackTransaction(ctx, &pb.RollbackTransactionRequest{TransactionId: h.id})
				}
			}
			_ = open
			if v := verifyFull(e, m, "final"); v != nil {
				v.Signature = "service-final:" + v.Signature
				fail(v)
			}
		}
		if res.V == nil && pmgr != nil {
			// an operator makes the node read-only (maintenance): the service passes
			// on what the replication manager reports about it
			e.SetReadOnly(true)
			_, _, _, _, ro := pmgr.GetNodeInfo()
			if r, err := svc.GetNodeInfo(ctx, &pb.GetNodeInfoRequest{}); err != nil || r.ReadOnly != ro {
				fail(&kit.Violation{Kind: "service-mismatch", Signature: "nodeinfo-read-only-not-passed-on", Detail: fmt.Sprintf("the engine was made read-only (SetReadOnly(true)); the replication manager reports read_only=%v, GetNodeInfo says %v, %v", ro, r, err)})
			}
			e.SetReadOnly(false)
		}
		res.Probes["rejected_requests"] += int64(rejected)
		res.Probes["scan_streams_abandoned_by_the_client"] += int64(abandonedScans)
		res.Probes["handles"] += int64(len(handles))
		res.Nontrivial = m.Len() >= 2 && len(c.Ops) >= 5
		res.Note = fmt.Sprintf("%d requests, %d write steps, %d handles, %d rejected", len(c.Ops), m.Len(), len(handles), rejected)
		reg.GracefulShutdown(context.Background())
		e.Close()
	})
	res.Absorb(out)
	if sim != nil && kit.Verbose {
		res.Trace = sim.TraceLines()
	}
	return res
}

func genSvcCase(r *kit.Rand, tier string) SvcCase {
	c := SvcCase{Sched: kit.GenSched(r, "seq"), Knobs: kit.GenKnobs(r)}
	c.Sched.MaxVirtS = 4 * 3600
	ks := kit.GenKeySpace(r, kit.PickOf(r, 3, 6, 12))
	for i := range ks.Keys { // the service rejects keys over 4096 bytes; keep regular keys legal
		if len(ks.Keys[i]) > 4096 {
			ks.Keys[i] = ks.Keys[i][:4096]
		}
	}
	var tag uint32
	nHandles := 0
	openRW, openRO := -1, map[int]bool{}
	pickH := func() int {
		if nHandles == 0 || r.Bool(0.1) {
			return -1
		}
		if r.Bool(0.75) {
			// prefer an open handle
			if openRW >= 0 && r.Bool(0.6) {
				return openRW
			}
			for h := range openRO {
				return h
			}
		}
		return r.Intn(nHandles)
	}
	scanOpts := func(o *SvcOp) {
		if r.Bool(0.08) {
			o.FailSend = r.Range(1, 3)
		}
		switch r.Pick(3, 3, 2, 2, 1) {
		case 1:
			a, b := ks.Pick(r), ks.Pick(r)
			if bytes.Compare(a, b) > 0 {
				a, b = b, a
			}
			if r.Bool(0.8) {
				o.Start = a
			}
			if r.Bool(0.8) {
				o.End = b
			}
		case 2:
			k := ks.Pick(r)
			o.Prefix = k[:1+r.Intn(len(k))]
		case 3:
			k := ks.Pick(r)
			o.Suffix = k[len(k)-1-r.Intn(len(k)):]
		case 4:
			k := ks.Pick(r)
			o.Prefix, o.Suffix = k[:1], k[len(k)-1:]
		}
		if r.Bool(0.3) {
			o.Limit = int32(r.Range(1, 3))
		}
	}
	boundaryKey := func(o *SvcOp) {
		if r.Bool(0.12) {
			o.KeyLen = kit.PickOf(r, 4095, 4096, 4097, 5000)
			o.Key = nil
		} else if r.Bool(0.04) {
			o.Key = []byte{} // empty key
		}
	}
	n := r.Range(5, 45)
	if tier == "thorough" {
		n = r.Range(5, 120)
	}
	// rare value sizes: around the service's value limit (rejected or just
	// accepted), and between the log's record size and that limit (accepted by
	// the service, but a batch or commit containing one fails as a whole)
	oddSize := func(o *SvcOp) {
		if o.K != "put" && o.K != "txput" {
			return
		}
		switch {
		case r.Bool(0.003):
			o.Len = 10*1024*1024 + r.Range(-1, 1)
		case r.Bool(0.02):
			o.Len = kit.PickOf(r, 32768-40+r.Intn(60), 40000, 70000)
		}
	}
	c.Primary = r.Bool(0.2)
	for len(c.Ops) < n {
		lockFree := openRW < 0 && len(openRO) == 0
		switch r.Pick(14, 10, 5, 4, 6, 5, 14, 6, 1, 1) {
		case 0:
			tag++
			o := SvcOp{K: "put", Key: ks.Pick(r), Tag: tag, Len: kit.ValLen(r, false)}
			boundaryKey(&o)
			if r.Bool(0.004) {
				o.Len = 10*1024*1024 + r.Range(-1, 1) // around the value limit
			}
			c.Ops = append(c.Ops, o)
		case 1:
			o := SvcOp{K: "get", Key: ks.Pick(r)}
			boundaryKey(&o)
			c.Ops = append(c.Ops, o)
		case 2:
			o := SvcOp{K: "del", Key: ks.Pick(r)}
			boundaryKey(&o)
			c.Ops = append(c.Ops, o)
		case 3:
			if !lockFree {
				continue // BatchWrite runs inside a read-write transaction and would wait for the open one
			}
			tag++
			o := SvcOp{K: "batch", Tag: tag}
			if r.Bool(0.1) {
				o.NBatch = kit.PickOf(r, 999, 1000, 1001)
			}
			for j, m := 0, r.Range(0, 5); j < m; j++ {
				tag++
				s := SvcOp{K: kit.PickOf(r, "put", "put", "del"), Key: ks.Pick(r), Tag: tag, Len: kit.ValLen(r, false)}
				boundaryKey(&s)
				oddSize(&s)
				o.Sub = append(o.Sub, s)
			}
			c.Ops = append(c.Ops, o)
		case 4:
			if openRW >= 0 {
				continue // Scan opens a read-only transaction
			}
			o := SvcOp{K: "scan"}
			scanOpts(&o)
			c.Ops = append(c.Ops, o)
		case 5:
			ro := r.Bool(0.5)
			if openRW >= 0 || (!ro && len(openRO) > 0) {
				continue
			}
			c.Ops = append(c.Ops, SvcOp{K: "begin", RO: ro})
			if ro {
				openRO[nHandles] = true
			} else {
				openRW = nHandles
			}
			nHandles++
		case 6:
			tag++
			o := SvcOp{K: kit.PickOf(r, "txget", "txget", "txput", "txput", "txdel", "txscan"), Key: ks.Pick(r), Tag: tag, Len: kit.ValLen(r, false), H: pickH()}
			if o.K == "txscan" {
				scanOpts(&o)
			} else {
				boundaryKey(&o)
				oddSize(&o)
			}
			c.Ops = append(c.Ops, o)
		case 7:
			o := SvcOp{K: kit.PickOf(r, "commit", "commit", "rollback"), H: pickH(), DeadCtx: r.Bool(0.06)}
			c.Ops = append(c.Ops, o)
			if o.H >= 0 && nHandles > 0 {
				h := o.H % nHandles
				if h == openRW {
					openRW = -1
				}
				delete(openRO, h)
			}
		case 8:
			c.Ops = append(c.Ops, SvcOp{K: "nodeinfo"})
		case 9:
			c.Ops = append(c.Ops, SvcOp{K: "sleep", D: int64(kit.PickOf(r, 5, 800, 11000))})
		}
	}
	return c
}

func TestC19(t *testing.T) {
	kit.Main(t, kit.Spec[SvcCase]{
		ID:  "C19",
		Gen: genSvcCase,
		Run: runC19,
		Shrink: func(c SvcCase) []SvcCase {
			var out []SvcCase
			n := len(c.Ops)
			// dropping a begin shifts handle slots: only drop non-begin requests, and whole tails
			for cut := n / 2; cut >= 1; cut /= 2 {
				d := c
				d.Ops = c.Ops[:n-cut]
				out = append(out, d)
			}
			for i, o := range c.Ops {
				if o.K == "begin" {
					continue
				}
				d := c
				d.Ops = append(append([]SvcOp(nil), c.Ops[:i]...), c.Ops[i+1:]...)
				out = append(out, d)
			}
			sort.SliceStable(out, func(i, j int) bool { return len(out[i].Ops) < len(out[j].Ops) })
			return out
		},
		Strip: func(c SvcCase) any { d := c; d.Sched = kit.Sched{}; return d },
		Rule:  "request programmes of 5-45 (thorough: up to 120) requests over every method of the service: get/put/delete/batch write/scan with range, prefix, suffix, prefix+suffix and limit/begin read-only or read-write/tx-get/tx-put/tx-delete/tx-scan/commit/rollback addressed by handle (open, finished, unknown)/get-node-info, with boundary sizes (keys of 0, 4095, 4096, 4097, 5000 bytes; values of 10MB-1..10MB+1 in a few runs; batches of 999/1000/1001), generated so that no request has to wait for the database lock of an open handle; every response is compared with the reference map that judges the embedded API, rejected requests must leave data and open handles untouched, and the final content is read back through the embedded API. non-trivial = >=2 write steps and >=5 requests",
	})
}
