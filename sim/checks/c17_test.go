package checks

import (
	"context"
	"errors"
	"fmt"
	"testing"
	"time"

	"github.com/KevoDB/kevo/pkg/transaction"
	"github.com/KevoDB/kevo/zsim/kit"
	"github.com/KevoDB/kevo/zsim/simrt"
	"github.com/KevoDB/kevo/zsim/simsync"
)

// C17 — every transaction ends and releases the database.
// Clients (each holding at most one transaction) begin / operate / commit /
// roll back / finish twice / use after finish / abandon, directly on the
// engine and through the transaction registry by handle. Registry sweeps,
// idle expiry, connection cleanup, graceful shutdown and the 10 s begin
// timeout all run on virtual time; clients "think" while holding the lock so
// that begins time out. Oracles: later finishes return the closed error and
// change nothing; a finished transaction cannot be used; and once every
// client is done a fresh read-write transaction begins within a bounded
// virtual time (nobody is left holding the database lock).

type LifeOp struct {
	K     string `json:"k"` // tx | think | cleanup-conn
	Via   string `json:"via,omitempty"`
	RO    bool   `json:"ro,omitempty"`
	Puts  int    `json:"puts,omitempty"`
	Think int64  `json:"think_ms,omitempty"` // virtual think time while the transaction is open
	End   string `json:"end,omitempty"`      // commit rollback abandon
	Extra string `json:"extra,omitempty"`    // "" | commit | rollback | use  (after the end)
	Conn  int    `json:"conn,omitempty"`     // cleanup-conn: whose connection
	Big   bool   `json:"big,omitempty"`      // one of the puts carries a value above the log's record size: the commit fails as a whole
	CtxMs int64  `json:"ctx_ms,omitempty"`   // registry begin: the request's own deadline (a remote call that gives up early)
	D     int64  `json:"d,omitempty"`
	// Pings > 0: instead of one think time the client reads through the open
	// transaction that many times, Think apart: the transaction grows old
	// without ever being idle
	Pings int `json:"pings,omitempty"`
}

type LifeCase struct {
	Sched    kit.Sched  `json:"sched"`
	Knobs    kit.Knobs  `json:"knobs"`
	Clients  [][]LifeOp `json:"clients"`
	IdleS    int64      `json:"idle_s"`
	TTLS     int64      `json:"ttl_s"`
	Shutdown bool       `json:"shutdown"`
	// DefaultReg: the registry is the one NewRegistry() gives (as the server uses
	// it); the configuration documents an idle limit of 30 s, which IdleS is then
	DefaultReg bool `json:"default_registry,omitempty"`
}

func lifeKey(client int) []byte { return []byte(fmt.Sprintf("life/c%d", client)) }

func runC17(t *testing.T, c LifeCase) *kit.Result {
	res := kit.NewResult()
	cfg := c.Sched.Config()
	cfg.Verbose = kit.Verbose
	var sim *simrt.Sim
	out := simrt.Run(t, cfg, func() {
		sim = simrt.S
		fs := kit.NewFS()
		kit.TagNode(fs, "n1")
		e, err := kit.OpenEngine("n1", c.Knobs)
		if err != nil {
			res.V = &kit.Violation{Kind: "open-error", Signature: "open-error:first", Detail: err.Error()}
			return
		}
		reg := transaction.NewRegistryWithTTL(time.Duration(c.TTLS)*time.Second, time.Duration(c.IdleS)*time.Second, 75, 90)
		if c.DefaultReg {
			reg.GracefulShutdown(context.Background())
			reg = transaction.NewRegistry()
		}
		fail := func(v *kit.Violation) {
			if res.V == nil {
				res.V = v
			}
		}
		var wg simsync.WaitGroup
		tag := 0
		abandoned, timedOut, cleaned, bigs := 0, 0, 0, 0
		for ci, ops := range c.Clients {
			ci, ops := ci, ops
			wg.Add(1)
			simrt.GoNamed(fmt.Sprintf("client%d", ci), func() {
				defer wg.Done()
				conn := fmt.Sprintf("conn%d", ci)
				ctx := context.WithValue(context.Background(), "peer", conn)
				committed := "" // what this client's key must read as
				check := func(when string) {
					v, found, err := kit.GetKey(e, lifeKey(ci))
					if err != nil {
						return
					}
					got := ""
					if found {
						got = string(v)
					}
					if got != committed {
						fail(&kit.Violation{Kind: "finish-side-effect", Signature: "tx-side-effect:" + when, Detail: fmt.Sprintf("client %d %s: key %s reads %q, committed value is %q", ci, when, lifeKey(ci), got, committed)})
					}
				}
				for _, op := range ops {
					if res.V != nil {
						return
					}
					switch op.K {
					case "think":
						simrt.Sleep(time.Duration(op.D) * time.Millisecond)
					case "cleanup-conn":
						// the server noticed that a connection went away
						reg.CleanupConnection(fmt.Sprintf("conn%d", op.Conn))
						cleaned++
					case "tx":
						var tx transaction.Transaction
						id := ""
						if op.Via == "registry" {
							var err error
							bctx := ctx
							if op.CtxMs > 0 {
								var cancel context.CancelFunc
								bctx, cancel = context.WithTimeout(ctx, time.Duration(op.CtxMs)*time.Millisecond)
								defer cancel()
							}
							id, err = reg.Begin(bctx, e, op.RO)
							if err != nil {
								timedOut++
								simrt.Note("client %d: begin failed: %v", ci, err)
								continue
							}
							var ok bool
							tx, ok = reg.Get(id)
							if !ok {
								// swept before first use
								continue
							}
						} else {
							t0, err := e.BeginTransaction(op.RO)
							if err != nil {
								fail(&kit.Violation{Kind: "begin-error", Signature: "begin-error", Detail: err.Error()})
								return
							}
							tx = t0
						}
						pending := committed
						usable := true
						for p := 0; p < op.Puts && !op.RO; p++ {
							tag++
							v := fmt.Sprintf("life%05d", tag)
							if err := tx.Put(lifeKey(ci), []byte(v)); err != nil {
								usable = false // e.g. swept while thinking
								break
							}
							pending = v
						}
						if op.Big && !op.RO && usable {
							// accepted by the transaction, refused by the log at commit time
							if err := tx.Put([]byte(fmt.Sprintf("life/c%d/big", ci)), kit.MakeValue(uint32(tag+900000), 40000)); err == nil {
								bigs++ // if the commit fails nothing of it may show; if it succeeds all of it does
							}
						}
						if op.Pings > 0 {
							for p := 0; p < op.Pings && usable; p++ {
								simrt.Sleep(time.Duration(op.Think) * time.Millisecond)
								if _, err := tx.Get(lifeKey(ci)); err != nil && !kit.IsNotFound(err) {
									usable = false
								}
							}
							res.Probe("transactions_kept_busy_into_old_age")
						} else if op.Think > 0 {
							simrt.Sleep(time.Duration(op.Think) * time.Millisecond)
						}
						switch op.End {
						case "commit":
							err := tx.Commit()
							if err == nil {
								if !op.RO && usable {
									committed = pending
								}
							} else if !errors.Is(err, transaction.ErrTransactionClosed) {
								res.Probe("commit_errors")
							}
							if id != "" {
								reg.Remove(id)
							}
						case "rollback":
							tx.Rollback()
							if id != "" {
								reg.Remove(id)
							}
						case "abandon":
							abandoned++
							// the client simply goes away; only the server can end this transaction
							return
						}
						check("after-" + op.End)
						switch op.Extra {
						case "commit":
							if err := tx.Commit(); !errors.Is(err, transaction.ErrTransactionClosed) {
								fail(&kit.Violation{Kind: "double-finish", Signature: "second-commit-not-rejected", Detail: fmt.Sprintf("client %d: Commit after %s returned %v, want the closed error", ci, op.End, err)})
							}
							check("after-second-commit")
						case "rollback":
							if err := tx.Rollback(); !errors.Is(err, transaction.ErrTransactionClosed) {
								fail(&kit.Violation{Kind: "double-finish", Signature: "second-rollback-not-rejected", Detail: fmt.Sprintf("client %d: Rollback after %s returned %v, want the closed error", ci, op.End, err)})
							}
							check("after-second-rollback")
						case "use":
							if err := tx.Put(lifeKey(ci), []byte("zombie")); !errors.Is(err, transaction.ErrTransactionClosed) {
								fail(&kit.Violation{Kind: "use-after-finish", Signature: "put-after-finish-not-rejected", Detail: fmt.Sprintf("client %d: Put on a finished transaction (read-only=%v) returned %v", ci, op.RO, err)})
							}
							if _, err := tx.Get(lifeKey(ci)); !errors.Is(err, transaction.ErrTransactionClosed) {
								fail(&kit.Violation{Kind: "use-after-finish", Signature: "get-after-finish-not-rejected", Detail: fmt.Sprintf("client %d: Get on a finished transaction returned %v", ci, err)})
							}
							check("after-use-after-finish")
						}
					}
				}
			})
		}
		wg.Wait()
		if res.V != nil {
			return
		}
		// every client is done (finished, abandoned or cleaned up). Whoever still
		// holds the lock must lose it by the server's own means.
		if c.Shutdown {
			sctx, cancel := context.WithTimeout(context.Background(), 30*time.Second)
			reg.GracefulShutdown(sctx)
			cancel()
		}
		// an abandoned transaction is idle by now at the latest: it goes with the
		// first sweep (every 30 s) after its idle limit, or earlier with its lifetime
		budget := 40 * time.Second
		if c.Shutdown {
			budget = 15 * time.Second
		} else {
			budget += time.Duration(c.IdleS) * time.Second
		}
		done := false
		simrt.GoNamed("prober", func() {
			tx, err := e.BeginTransaction(false)
			if err == nil {
				tx.Rollback()
			}
			done = true
		})
		start := simrt.NowUnstalled()
		for !done && time.Duration(simrt.NowUnstalled()-start) < budget {
			simrt.Sleep(500 * time.Millisecond)
		}
		if !done {
			fail(&kit.Violation{Kind: "lock-never-released", Signature: "database-lock-leaked", Detail: fmt.Sprintf("all clients are done (abandoned=%d, begin-timeouts=%d, shutdown=%v) but a fresh read-write transaction could not begin within %s:\n%s", abandoned, timedOut, c.Shutdown, budget, simrt.Describe())})
			return
		}
		res.Probes["abandoned"] += int64(abandoned)
		res.Probes["begin_timeouts"] += int64(timedOut)
		res.Probes["connection_cleanups"] += int64(cleaned)
		res.Probes["commits_failing_on_an_oversized_entry"] += int64(bigs)
		res.Nontrivial = len(c.Clients) >= 2
		res.Note = fmt.Sprintf("%d clients, %d abandoned transactions, %d begin time-outs, %d connection clean-ups, shutdown=%v", len(c.Clients), abandoned, timedOut, cleaned, c.Shutdown)
		if !c.Shutdown {
			reg.GracefulShutdown(context.Background())
		}
		e.Close()
	})
	res.Absorb(out)
	if sim != nil && kit.Verbose {
		res.Trace = sim.TraceLines()
	}
	return res
}

func genLifeCase(r *kit.Rand, tier string) LifeCase {
	c := LifeCase{Sched: kit.GenSched(r, "conc"), Knobs: kit.GenKnobs(r), IdleS: int64(kit.PickOf(r, 2, 10, 30)), TTLS: int64(kit.PickOf(r, 20, 60, 300)), Shutdown: r.Bool(0.3)}
	c.Sched.MaxVirtS = 3600
	if r.Bool(0.12) {
		c.DefaultReg, c.IdleS, c.TTLS = true, 30, 300
	}
	nc := r.Range(2, 5)
	for i := 0; i < nc; i++ {
		var ops []LifeOp
		for j, n := 0, r.Range(1, 5); j < n; j++ {
			switch r.Pick(10, 2, 1) {
			case 0:
				op := LifeOp{K: "tx", Via: kit.PickOf(r, "engine", "registry", "registry"), RO: r.Bool(0.3), Puts: r.Range(0, 2),
					End: kit.PickOf(r, "commit", "commit", "rollback"), Extra: kit.PickOf(r, "", "", "commit", "rollback", "use")}
				if r.Bool(0.3) {
					op.Think = int64(kit.PickOf(r, 5, 2000, 11000, 35000))
				}
				op.Big = r.Bool(0.08)
				if op.Via == "registry" && r.Bool(0.25) {
					op.CtxMs = int64(kit.PickOf(r, 1, 300, 1900, 6000))
				}
				if op.Via == "registry" && r.Bool(0.2) {
					op.End, op.Extra = "abandon", ""
				}
				if op.Via == "registry" && c.TTLS == 300 && c.IdleS <= 10 && r.Bool(0.15) {
					// busy until it is older than three quarters of its lifetime, then abandoned
					op.Think = c.IdleS * 800
					op.Pings = int(228000/op.Think) + r.Range(0, 6)
					op.End, op.Extra = "abandon", ""
				}
				ops = append(ops, op)
				if op.End == "abandon" {
					j = n // the client is gone: it never asks for a second transaction while this one is open
				}
			case 1:
				ops = append(ops, LifeOp{K: "think", D: int64(kit.PickOf(r, 10, 3000, 12000))})
			case 2:
				ops = append(ops, LifeOp{K: "cleanup-conn", Conn: r.Intn(nc)})
			}
		}
		c.Clients = append(c.Clients, ops)
	}
	return c
}

func TestC17(t *testing.T) {
	kit.Main(t, kit.Spec[LifeCase]{
		ID:  "C17",
		Gen: genLifeCase,
		Run: runC17,
		Shrink: func(c LifeCase) []LifeCase {
			var out []LifeCase
			if len(c.Clients) > 1 {
				for i := range c.Clients {
					d := c
					d.Clients = append(append([][]LifeOp(nil), c.Clients[:i]...), c.Clients[i+1:]...)
					// connection indices of clean-ups stay valid modulo the new count
					out = append(out, d)
				}
			}
			for i, ops := range c.Clients {
				for j := range ops {
					d := c
					d.Clients = append([][]LifeOp(nil), c.Clients...)
					d.Clients[i] = append(append([]LifeOp(nil), ops[:j]...), ops[j+1:]...)
					out = append(out, d)
				}
				for j, op := range ops {
					if op.Extra != "" {
						d := c
						d.Clients = append([][]LifeOp(nil), c.Clients...)
						d.Clients[i] = append([]LifeOp(nil), ops...)
						d.Clients[i][j].Extra = ""
						out = append(out, d)
					}
				}
			}
			if c.Shutdown {
				d := c
				d.Shutdown = false
				out = append(out, d)
			}
			return out
		},
		Strip: func(c LifeCase) any { d := c; d.Sched = kit.Sched{}; return d },
		Rule:  "2-5 client tasks, each with 1-5 steps: a transaction (read-only or read-write, on the engine or through the registry by handle, 0-2 puts of unique values to the client's own key, optional virtual think time of 5 ms-35 s while it is open, ended by commit / rollback / abandonment, optionally followed by a second commit, a second rollback or a use of the finished transaction), a pause, or a connection clean-up of some client's connection; registry with 30 s sweeps, idle limit 2-30 s, lifetime 20-300 s; in 30% of the cases a graceful shutdown at the end. After every finish the client's key must read the last committed value; later finishes and uses must return the closed error; some transactions by handle are kept busy (a read every 0.8 x idle limit) until they are older than three quarters of a 300 s lifetime and then abandoned; finally a fresh read-write transaction must begin within idle limit + 40 s (one 30 s sweep and slack; 15 s after a shutdown) of virtual time. Put on a finished read-only transaction must return the closed error too. non-trivial = >=2 clients",
	})
}
