package checks

import (
	"fmt"
	"strings"
	"testing"
	"time"

	"github.com/KevoDB/kevo/pkg/engine"
	"github.com/KevoDB/kevo/zsim/kit"
	"github.com/KevoDB/kevo/zsim/simos"
	"github.com/KevoDB/kevo/zsim/simrt"
)

// C02 — acknowledged writes survive a crash; recovery yields a history prefix.
//
// Mode "enum": the programme runs once while simos snapshots the node's disk
// before every state-changing I/O point; every snapshot is then recovered under
// {stop before the op, stop after it, write torn at up to 5 offsets (1, n/2, n-1, 7, random)} x {PROC, POWER-DATA}.
// Mode "multi": sampled crash -> recover -> write -> crash ... cycles with the
// engine's background tasks alive, ending with a clean close and reopen.

type CrashCase struct {
	Sched   kit.Sched `json:"sched"`
	Knobs   kit.Knobs `json:"knobs"`
	Mode    string    `json:"mode"` // enum | multi
	Ops     []kit.Op  `json:"ops"`
	Crashes []CrashPt `json:"crashes,omitempty"`  // multi: one per segment
	PSeed   uint64    `json:"pseed"`              // POWER-DATA prefix choices
	TxnBias bool      `json:"txn_bias,omitempty"` // C03: programme is mostly transactions
}

type CrashPt struct {
	AfterOps int     `json:"after_ops"` // arm the crash once this many ops of the segment were issued
	IOSkip   int64   `json:"io_skip"`   // crash at the IOSkip-th I/O point after arming
	Mode     int     `json:"mode"`      // simos.Crash*
	Torn     float64 `json:"torn,omitempty"`
	Power    bool    `json:"power,omitempty"` // POWER-DATA image instead of PROC
	SegOps   int     `json:"seg_ops"`         // ops of this segment (crash or not)
}

// manifestDurable exempts the MANIFEST from the power-loss model: the property's
// anchors name fsync-before-acknowledge (log) and fsync-before-rename (tables)
// only; manifest durability is C20's subject and reported there.
func manifestDurable(p string) bool { return strings.HasSuffix(p, "/MANIFEST") }

func lowerBound(k kit.Knobs, acked int) int {
	if k.SyncMode == 2 {
		return acked
	}
	return 0
}

// checkRecovered opens the database on the node's current disk image and
// matches what it reads against the prefix window [lo,hi]. Returns the engine
// (open) and the matched prefix.
func checkRecovered(fs *simos.FS, c *CrashCase, m *kit.Model, lo, hi int, what string, power bool) (*engine.EngineFacade, int, *kit.Violation) {
	e, k, v := checkRecovered0(fs, c, m, lo, hi, what)
	if v != nil && power {
		v.Signature += ":power"
	}
	return e, k, v
}

func checkRecovered0(fs *simos.FS, c *CrashCase, m *kit.Model, lo, hi int, what string) (*engine.EngineFacade, int, *kit.Violation) {
	e, err := kit.OpenEngine("n1", c.Knobs)
	if err != nil {
		return nil, 0, &kit.Violation{Kind: "open-error-after-crash", Signature: "open-error-after-crash", Detail: fmt.Sprintf("%s: %v\nfiles:\n%s", what, err, fs.Snapshot("n1").Describe())}
	}
	obs, problem, err := kit.Observe(e, m.Keys())
	if err != nil {
		return e, 0, &kit.Violation{Kind: "read-error-after-crash", Signature: "read-error-after-crash", Detail: what + ": " + err.Error()}
	}
	if problem != "" {
		return e, 0, &kit.Violation{Kind: "scan-order", Signature: "scan-order-after-crash", Detail: what + ": " + problem}
	}
	if d := kit.EqualState(obs.Scan, obs.Gets); d != "" {
		return e, 0, &kit.Violation{Kind: "scan-get-disagree", Signature: "scan-get-disagree-after-crash", Detail: what + ": scan vs gets: " + d}
	}
	k, ok, why := m.MatchPrefix(obs.Gets, lo, hi)
	if ok {
		return e, k, nil
	}
	if pk, pj, pok := m.MatchPartialStep(obs.Gets, lo, hi); pok {
		return e, 0, &kit.Violation{Kind: "partial-batch-after-crash", Signature: "partial-batch-after-crash", Detail: fmt.Sprintf("%s: recovered state = state %d plus the first %d of %d writes of step %d (%s): a batch/transaction was recovered partially\nfiles:\n%s", what, pk-1, pj, len(m.Step(pk)), pk, describeStep(m, pk), fs.Snapshot("n1").Describe())}
	}
	if k2, ok2, _ := m.MatchPrefix(obs.Gets, 0, lo-1); ok2 {
		return e, 0, &kit.Violation{Kind: "acked-write-lost", Signature: "acked-write-lost", Detail: fmt.Sprintf("%s: recovered state equals prefix %d but %d writes were acknowledged (issued %d); first missing step: %v\nfiles:\n%s", what, k2, lo, hi, describeStep(m, k2+1), fs.Snapshot("n1").Describe())}
	}
	return e, 0, &kit.Violation{Kind: "not-a-prefix", Signature: "not-a-prefix", Detail: fmt.Sprintf("%s: recovered state is no prefix state in [%d,%d]; vs state %d: %s\nrecovered: %s\nfiles:\n%s", what, lo, hi, hi, why, kit.DescribeState(obs.Gets), fs.Snapshot("n1").Describe())}
}

func describeStep(m *kit.Model, i int) string {
	if i < 1 || i > m.Len() {
		return "-"
	}
	s := ""
	for _, w := range m.Step(i) {
		if w.Del {
			s += fmt.Sprintf("del(%s) ", kit.Q(w.Key))
		} else {
			s += fmt.Sprintf("put(%s,%s) ", kit.Q(w.Key), kit.Q(w.Val))
		}
	}
	return s
}

// runSegment issues ops against e until done, error or death of the incarnation.
// It maintains m (Apply before issuing, Acked after a nil return).
func runSegment(e *engine.EngineFacade, m *kit.Model, ops []kit.Op, arm func(i int), res *kit.Result) {
	for i, op := range ops {
		if arm != nil {
			arm(i)
		}
		simrt.Note("op %s", op.String())
		switch op.K {
		case "put", "del", "batch", "txn":
			ws := op.Writes()
			if op.K == "txn" && !op.Commit {
				ws = nil
			}
			idx := -1
			if len(ws) > 0 {
				idx = m.Apply(ws)
			}
			r := kit.ExecWrite(e, op)
			if r.Err != nil {
				// the step stays "issued, not acknowledged"; nothing further is issued
				res.Probe("write_errors")
				return
			}
			if idx >= 0 {
				m.Acked = idx
			}
		case "get":
			kit.GetKey(e, op.Key)
		case "flush":
			e.FlushImMemTables()
		case "compact":
			e.TriggerCompaction()
		case "crange":
			e.CompactRange(op.Key, op.End)
		case "sleep":
			simrt.Sleep(time.Duration(op.D) * time.Millisecond)
		}
	}
}

type ioSnap struct {
	idx    int64
	img    *simos.Image
	op     simos.Op
	acked  int
	issued int
}

func runC02(t *testing.T, c CrashCase) *kit.Result {
	if c.Mode == "enum" {
		return runCrashEnum(t, c)
	}
	return runCrashMulti(t, c)
}

func runCrashEnum(t *testing.T, c CrashCase) *kit.Result {
	res := kit.NewResult()
	cfg := c.Sched.Config()
	cfg.Verbose = kit.Verbose
	var sim *simrt.Sim
	out := simrt.Run(t, cfg, func() {
		sim = simrt.S
		fs := kit.NewFS()
		m := kit.NewModel()
		var snaps []ioSnap
		node := fs.Node("n1")
		node.BeforePoint = func(n *simos.Node, idx int64, op *simos.Op) {
			cp := *op
			cp.Data = append([]byte(nil), op.Data...)
			snaps = append(snaps, ioSnap{idx: idx, img: fs.Snapshot("n1"), op: cp, acked: m.Acked, issued: m.Len()})
		}
		var openErr error
		kit.OnNode(fs, "n1", "writer", func() {
			e, err := kit.OpenEngine("n1", c.Knobs)
			if err != nil {
				openErr = err
				return
			}
			runSegment(e, m, c.Ops, nil, res)
			e.Close()
		})
		node.BeforePoint = nil
		if openErr != nil {
			res.V = &kit.Violation{Kind: "open-error", Signature: "open-error:first", Detail: openErr.Error()}
			return
		}
		// final image: clean close => exactly the final state (only if every write was acked)
		final := fs.Snapshot("n1")
		simrt.KillTagged("n1", fs.Node("n1").Gen)
		prng := kit.NewRand(c.PSeed)
		type variant struct {
			name  string
			apply bool
			torn  int
			power bool
		}
		evals := 0
		recoverOne := func(img *simos.Image, lo, hi int, what string, power bool) {
			fs.Mount(img)
			kit.OnNode(fs, "n1", "recover", func() {
				e, k, v := checkRecovered(fs, &c, m, lo, hi, what, power)
				_ = k
				if v != nil {
					res.V = v
				}
				if e != nil {
					e.Close()
				}
			})
			simrt.KillTagged("n1", fs.Node("n1").Gen)
			evals++
		}
		for si := range snaps {
			if res.V != nil {
				break
			}
			s := &snaps[si]
			vars := []variant{{"before", false, -1, false}, {"after", true, -1, false}}
			if s.op.Kind == simos.OpWrite && len(s.op.Data) > 1 {
				n := len(s.op.Data)
				cuts := []int{1, n / 2, n - 1}
				if n > 7 {
					cuts = append(cuts, 7) // a record header and nothing else
				}
				if n > 3 {
					cuts = append(cuts, 1+prng.Intn(n-1))
				}
				for _, k := range cuts {
					vars = append(vars, variant{fmt.Sprintf("torn@%d/%d", k, n), true, k, false})
				}
				res.Fault("torn_write", int64(len(cuts)))
			}
			// the same stops under power loss
			// (POWER-DATA is judged only with synchronous logging, where the
			// obligation "fsync before acknowledging" is stated; with batch/no
			// sync the statement speaks of process death only.)
			base := len(vars)
			if c.Knobs.SyncMode != 2 {
				base = 0
			}
			for i := 0; i < base && i < 3; i++ {
				v := vars[i]
				v.power = true
				v.name += "+power"
				vars = append(vars, v)
			}
			for _, v := range vars {
				if res.V != nil {
					break
				}
				if v.name == "before" && si > 0 {
					continue // identical to "after" of the previous point
				}
				img := s.img.Clone()
				if v.apply {
					img.ApplyOp(&s.op, v.torn)
				}
				if v.power {
					if img.PowerLoss(func(n int) int { return prng.Intn(n + 1) }, manifestDurable) > 0 {
						res.Fault("power_loss_image", 1)
					}
				} else {
					res.Fault("proc_crash_image", 1)
				}
				hi := s.issued
				lo := lowerBound(c.Knobs, s.acked)
				what := fmt.Sprintf("crash %s io#%d %s %s (acked=%d issued=%d)", v.name, s.idx, simos.OpNames[s.op.Kind], s.op.Path, s.acked, s.issued)
				recoverOne(img, lo, hi, what, v.power)
			}
		}
		if res.V == nil && m.Acked == m.Len() {
			recoverOne(final, m.Len(), m.Len(), "clean close", false)
			if res.V != nil {
				res.V.Signature = "clean-close:" + res.V.Signature
			}
		}
		res.Evals = evals
		res.Probes["io_points"] += int64(len(snaps))
		res.Nontrivial = len(snaps) >= 4 && m.Acked >= 1
		res.Note = fmt.Sprintf("enum: %d write steps, %d I/O points, %d recoveries", m.Len(), len(snaps), evals)
	})
	res.Absorb(out)
	if sim != nil && kit.Verbose {
		res.Trace = sim.TraceLines()
	}
	return res
}

func runCrashMulti(t *testing.T, c CrashCase) *kit.Result {
	res := kit.NewResult()
	cfg := c.Sched.Config()
	cfg.Verbose = kit.Verbose
	var sim *simrt.Sim
	out := simrt.Run(t, cfg, func() {
		sim = simrt.S
		fs := kit.NewFS()
		m := kit.NewModel()
		prng := kit.NewRand(c.PSeed)
		node := fs.Node("n1")
		ops := c.Ops
		lo, hi := 0, 0
		crashes := 0
		anyPower := false
		for seg := 0; seg < len(c.Crashes) && res.V == nil; seg++ {
			cp := c.Crashes[seg]
			n := cp.SegOps
			if n > len(ops) {
				n = len(ops)
			}
			segOps := ops[:n]
			ops = ops[n:]
			what := fmt.Sprintf("segment %d", seg)
			var crashedAt string
			node.OnCrash = func(nd *simos.Node, idx int64, op *simos.Op) {
				crashedAt = fmt.Sprintf("io#%d %s %s", idx, simos.OpNames[op.Kind], op.Path)
			}
			died := kit.OnNode(fs, "n1", fmt.Sprintf("seg%d", seg), func() {
				e, k, v := checkRecovered(fs, &c, m, lo, hi, what+" recovery", anyPower)
				if v != nil {
					res.V = v
					return
				}
				if seg > 0 {
					// recovery resolved the in-flight tail: continue from the matched prefix
					m.Truncate(k)
				}
				runSegment(e, m, segOps, func(i int) {
					if i == cp.AfterOps && cp.IOSkip > 0 {
						node.CrashAt = node.IOCount + cp.IOSkip
						node.CrashMode = cp.Mode
						node.TornFrac = cp.Torn
					}
				}, res)
				// the segment ended without the crash firing: stop the process anyway
				node.CrashAt = 0
			})
			if res.V != nil {
				break
			}
			lo, hi = lowerBound(c.Knobs, m.Acked), m.Len()
			if died {
				crashes++
				res.Probe("crash_inside_io")
				res.Fault([]string{"crash_before", "crash_after", "crash_torn"}[cp.Mode], 1)
				simrt.Note("crashed at %s acked=%d issued=%d", crashedAt, m.Acked, m.Len())
			} else {
				// kill between I/O points (equivalent to "after the last I/O point")
				fs.CrashNow("n1")
				res.Fault("crash_between_io", 1)
				crashes++
			}
			if cp.Power {
				anyPower = true
				img := fs.Snapshot("n1")
				if img.PowerLoss(func(n int) int { return prng.Intn(n + 1) }, manifestDurable) > 0 {
					res.Fault("power_loss_image", 1)
				}
				fs.Mount(img)
			} else {
				fs.Restart("n1")
			}
		}
		// last incarnation: recover, a few more writes, clean close, reopen: exact
		if res.V == nil {
			node.OnCrash = nil
			kit.OnNode(fs, "n1", "final", func() {
				e, k, v := checkRecovered(fs, &c, m, lo, hi, "final recovery", anyPower)
				if v != nil {
					res.V = v
					return
				}
				m.Truncate(k)
				runSegment(e, m, ops, nil, res)
				acked, issued := m.Acked, m.Len()
				if err := e.Close(); err != nil {
					res.V = &kit.Violation{Kind: "close-error", Signature: "close-error", Detail: err.Error()}
					return
				}
				lo2 := issued
				if acked != issued {
					lo2 = acked // a write failed: it may or may not be there
				}
				e2, _, v := checkRecovered(fs, &c, m, lo2, issued, "reopen after clean close", anyPower)
				if v != nil {
					v.Signature = "clean-close:" + v.Signature
					res.V = v
				}
				if e2 != nil {
					e2.Close()
				}
			})
		}
		res.Nontrivial = crashes > 0 && m.Len() >= 2
		res.Note = fmt.Sprintf("multi: %d crash/recover cycles, %d write steps survived", crashes, m.Len())
	})
	res.Absorb(out)
	if sim != nil && kit.Verbose {
		res.Trace = sim.TraceLines()
	}
	return res
}

func genCrashCase(r *kit.Rand, tier string, txnBias bool) CrashCase {
	c := CrashCase{Sched: kit.GenSched(r, "seq"), Knobs: kit.GenKnobs(r), PSeed: r.Uint64(), TxnBias: txnBias}
	c.Sched.MaxVirtS = 4 * 3600
	if r.Bool(0.6) {
		c.Knobs.SyncMode = 2
	}
	ks := kit.GenKeySpace(r, kit.PickOf(r, 2, 4, 8))
	o := kit.ProgOpts{Keys: ks, Big: r.Bool(0.2), WGet: 2, WTxn: 10, WBatch: 5, WFlush: 6, WCompact: 3, WSleep: 2}
	if txnBias {
		o.WTxn, o.WBatch = 60, 10
	}
	if r.Bool(0.5) {
		c.Mode = "enum"
		o.MinOps, o.MaxOps = 1, 12
		if tier == "thorough" && r.Bool(0.3) {
			o.MaxOps = 30
		}
		c.Ops = kit.GenProgram(r, o)
		// enumeration cost grows with file sizes: keep memtables small but values modest
		return c
	}
	c.Mode = "multi"
	o.MinOps, o.MaxOps = 4, 60
	c.Ops = kit.GenProgram(r, o)
	nseg := r.Range(1, 4)
	per := len(c.Ops) / (nseg + 1)
	if per < 1 {
		per = 1
	}
	for i := 0; i < nseg; i++ {
		cp := CrashPt{SegOps: per, AfterOps: r.Intn(per), IOSkip: int64(r.Range(1, 12)), Mode: r.Pick(3, 3, 3), Torn: r.Float(), Power: c.Knobs.SyncMode == 2 && r.Bool(0.4)}
		if r.Bool(0.15) {
			cp.IOSkip = int64(r.Range(12, 80)) // deep inside a flush or compaction
		}
		c.Crashes = append(c.Crashes, cp)
	}
	// A power loss after an earlier process death would also test whether
	// recovery re-syncs log content that it replayed from the page cache - an
	// obligation the statement does not make (it speaks of process death; the
	// power-loss model covers fsync-before-acknowledge and fsync-before-rename).
	// Power losses therefore come first in a run, process deaths after them.
	last := -1
	for i, cp := range c.Crashes {
		if cp.Power {
			last = i
		}
	}
	for i := 0; i < last; i++ {
		c.Crashes[i].Power = true
	}
	return c
}

func shrinkCrashCase(c CrashCase) []CrashCase {
	var out []CrashCase
	if c.Mode == "multi" && len(c.Crashes) > 1 {
		for i := range c.Crashes {
			d := c
			d.Crashes = append(append([]CrashPt(nil), c.Crashes[:i]...), c.Crashes[i+1:]...)
			out = append(out, d)
		}
	}
	for _, ops := range kit.ShrinkOps(c.Ops) {
		d := c
		d.Ops = ops
		out = append(out, d)
	}
	if c.Mode == "multi" {
		for i, cp := range c.Crashes {
			if cp.SegOps > 1 {
				d := c
				d.Crashes = append([]CrashPt(nil), c.Crashes...)
				d.Crashes[i].SegOps = cp.SegOps / 2
				if d.Crashes[i].AfterOps >= d.Crashes[i].SegOps {
					d.Crashes[i].AfterOps = d.Crashes[i].SegOps - 1
				}
				out = append(out, d)
			}
			if cp.Power && (i == len(c.Crashes)-1 || !c.Crashes[i+1].Power) {
				d := c
				d.Crashes = append([]CrashPt(nil), c.Crashes...)
				d.Crashes[i].Power = false
				out = append(out, d)
			}
		}
	}
	return out
}

func TestC02(t *testing.T) {
	kit.Main(t, kit.Spec[CrashCase]{
		ID:     "C02",
		Gen:    func(r *kit.Rand, tier string) CrashCase { return genCrashCase(r, tier, false) },
		Run:    runC02,
		Shrink: shrinkCrashCase,
		Strip: func(c CrashCase) any {
			d := c
			d.Sched = kit.Sched{}
			return d
		},
		Rule: "single-writer programmes; mode enum: every state-changing I/O point of the run x {stop before, stop after, write torn at up to 5 offsets (1, n/2, n-1, 7, random)} x {PROC, POWER-DATA} recovered and matched against the prefix window [acked if sync=immediate else 0, issued]; mode multi: 1-4 sampled crash/recover/write cycles then clean close+reopen (exact). evaluations = recoveries checked; non-trivial = >=4 I/O points (enum) or >=1 crash (multi) with >=1 acknowledged write; distinct = (case hash, schedule hash)",
	})
}
