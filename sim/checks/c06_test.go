package checks

import (
	"fmt"
	"strings"
	"testing"
	"time"

	"github.com/anishathalye/porcupine"

	"github.com/KevoDB/kevo/zsim/kit"
	"github.com/KevoDB/kevo/zsim/simrt"
	"github.com/KevoDB/kevo/zsim/simsync"
)

// C06 — concurrent gets, puts and deletes are linearizable.
// 2-8 client tasks on 1-4 keys with unique values, memtables small enough to
// rotate every few writes, compaction every second, explicit flush/compact
// tasks, injected stalls (virtual time passing while a task sits between two
// steps of a rotation). Invoke/return are stamped with a global event counter;
// the history (plus reads after a final restart) is checked by porcupine
// against a register per key. A write that returned an error has no effect in
// the model, so a read that observes its value is illegal.

type LinCase struct {
	Sched   kit.Sched `json:"sched"`
	Knobs   kit.Knobs `json:"knobs"`
	NKeys   int       `json:"nkeys"`
	Clients [][]LinOp `json:"clients"`
	Maint   []string  `json:"maint,omitempty"` // maintenance task script: flush | compact | sleep
	ValPad  int       `json:"val_pad"`
	Restart bool      `json:"restart"`
}

type LinOp struct {
	K   string `json:"k"` // put get del
	Key int    `json:"key"`
	Tag int    `json:"tag,omitempty"`
	// put: the value is empty (present, zero bytes long) - not unique, the model copes
	Empty bool `json:"empty,omitempty"`
}

type linIn struct {
	kind string
	key  int
	val  string
}

type linOut struct {
	val   string
	found bool
	err   bool
}

type linState struct {
	val   string
	found bool
}

var linModel = porcupine.Model{
	Partition: func(history []porcupine.Operation) [][]porcupine.Operation {
		by := map[int][]porcupine.Operation{}
		var keys []int
		for _, op := range history {
			k := op.Input.(linIn).key
			if _, ok := by[k]; !ok {
				keys = append(keys, k)
			}
			by[k] = append(by[k], op)
		}
		out := make([][]porcupine.Operation, 0, len(keys))
		for _, k := range keys {
			out = append(out, by[k])
		}
		return out
	},
	Init: func() interface{} { return linState{} },
	Step: func(state, input, output interface{}) (bool, interface{}) {
		st := state.(linState)
		in := input.(linIn)
		o := output.(linOut)
		switch in.kind {
		case "put":
			if o.err {
				return true, st
			}
			return true, linState{val: in.val, found: true}
		case "del":
			if o.err {
				return true, st
			}
			return true, linState{}
		default:
			if o.err {
				return true, st
			}
			return o.found == st.found && (!o.found || o.val == st.val), st
		}
	},
	Equal: func(a, b interface{}) bool { return a.(linState) == b.(linState) },
	DescribeOperation: func(input, output interface{}) string {
		in := input.(linIn)
		o := output.(linOut)
		switch in.kind {
		case "put":
			return fmt.Sprintf("put(k%d,%s) err=%v", in.key, in.val, o.err)
		case "del":
			return fmt.Sprintf("del(k%d) err=%v", in.key, o.err)
		}
		return fmt.Sprintf("get(k%d) -> (%s,%v) err=%v", in.key, o.val, o.found, o.err)
	},
}

func linKey(i int) []byte { return []byte(fmt.Sprintf("lk%d", i)) }

func linVal(tag, pad int) []byte {
	v := []byte(fmt.Sprintf("w%06d", tag))
	for len(v) < pad {
		v = append(v, '.')
	}
	return v
}

func linValName(v []byte) string {
	if len(v) >= 7 {
		return string(v[:7])
	}
	return string(v)
}

func runC06(t *testing.T, c LinCase) *kit.Result {
	res := kit.NewResult()
	cfg := c.Sched.Config()
	cfg.Verbose = kit.Verbose
	var sim *simrt.Sim
	var history []porcupine.Operation
	writeErrs, rotations := 0, 0
	out := simrt.Run(t, cfg, func() {
		sim = simrt.S
		fs := kit.NewFS()
		kit.TagNode(fs, "n1")
		e, err := kit.OpenEngine("n1", c.Knobs)
		if err != nil {
			res.V = &kit.Violation{Kind: "open-error", Signature: "open-error:first", Detail: err.Error()}
			return
		}
		var evt int64
		var wg simsync.WaitGroup
		running := len(c.Clients)
		for ci, ops := range c.Clients {
			ci, ops := ci, ops
			wg.Add(1)
			simrt.GoNamed(fmt.Sprintf("client%d", ci), func() {
				defer wg.Done()
				defer func() { running-- }()
				for _, op := range ops {
					in := linIn{kind: op.K, key: op.Key}
					var o linOut
					evt++
					call := evt
					switch op.K {
					case "put":
						v := linVal(op.Tag, c.ValPad)
						if op.Empty {
							v = []byte{}
						}
						in.val = linValName(v)
						kb := linKey(op.Key)
						if err := e.Put(kb, v); err != nil {
							o.err = true
							writeErrs++
							simrt.Note("put error: %v", err)
						}
						// the client reuses its buffers as soon as the call has returned
						for i := range v {
							v[i] ^= 0x5a
						}
						for i := range kb {
							kb[i] ^= 0x5a
						}
					case "del":
						if err := e.Delete(linKey(op.Key)); err != nil {
							o.err = true
							writeErrs++
							simrt.Note("delete error: %v", err)
						}
					default:
						v, found, err := kit.GetKey(e, linKey(op.Key))
						if err != nil {
							o.err = true
						} else if found {
							o.val, o.found = linValName(v), true
						}
					}
					evt++
					history = append(history, porcupine.Operation{ClientId: ci, Input: in, Call: call, Output: o, Return: evt})
				}
			})
		}
		if len(c.Maint) > 0 {
			wg.Add(1)
			simrt.GoNamed("maintenance", func() {
				defer wg.Done()
				for _, m := range c.Maint {
					if running == 0 {
						return
					}
					switch m {
					case "flush":
						e.FlushImMemTables()
						rotations++
					case "compact":
						e.TriggerCompaction()
					default:
						simrt.Sleep(300 * time.Millisecond)
					}
				}
			})
		}
		wg.Wait()
		// what the database holds afterwards - and, after a restart, what it kept -
		// must be explained by the same linearization
		final := func(client int) {
			for k := 0; k < c.NKeys; k++ {
				evt++
				call := evt
				v, found, err := kit.GetKey(e, linKey(k))
				var o linOut
				if err != nil {
					o.err = true
				} else if found {
					o.val, o.found = linValName(v), true
				}
				evt++
				history = append(history, porcupine.Operation{ClientId: client, Input: linIn{kind: "get", key: k}, Call: call, Output: o, Return: evt})
			}
		}
		final(len(c.Clients))
		if c.Restart {
			if err := e.Close(); err != nil {
				res.Probe("close_errors")
			}
			e, err = kit.OpenEngine("n1", c.Knobs)
			if err != nil {
				res.V = &kit.Violation{Kind: "open-error", Signature: "open-error:reopen", Detail: err.Error()}
				return
			}
			final(len(c.Clients) + 1)
		}
		e.Close()
		l0, dp := sstCount(fs, "n1")
		res.Probes["sst_files"] += int64(l0 + dp)
	})
	res.Absorb(out)
	if sim != nil && kit.Verbose {
		res.Trace = sim.TraceLines()
	}
	res.Probes["write_errors"] += int64(writeErrs)
	if res.V != nil {
		return res
	}
	r, info := porcupine.CheckOperationsVerbose(linModel, history, 20*time.Second)
	switch r {
	case porcupine.Illegal:
		res.V = &kit.Violation{Kind: "not-linearizable", Signature: "not-linearizable", Detail: describeLin(history, info)}
	case porcupine.Unknown:
		res.Inconclusive = true
	}
	conc := 0
	for i := range history {
		for j := i + 1; j < len(history); j++ {
			if history[i].ClientId != history[j].ClientId && history[i].Call < history[j].Return && history[j].Call < history[i].Return {
				conc++
			}
		}
	}
	res.Probes["overlapping_operation_pairs"] += int64(conc)
	res.Nontrivial = conc > 0 && len(history) >= 6
	res.Note = fmt.Sprintf("%d operations by %d clients on %d keys, %d overlapping pairs, %d write errors", len(history), len(c.Clients), c.NKeys, conc, writeErrs)
	return res
}

func describeLin(h []porcupine.Operation, info porcupine.LinearizationInfo) string {
	var b strings.Builder
	b.WriteString("no total order consistent with real time explains the history (register per key; failed writes have no effect):\n")
	n := 0
	for _, op := range h {
		in := op.Input.(linIn)
		fmt.Fprintf(&b, "  c%d [%d,%d] %s\n", op.ClientId, op.Call, op.Return, linModel.DescribeOperation(in, op.Output))
		n++
		if n > 120 {
			b.WriteString("  …\n")
			break
		}
	}
	return b.String()
}

func genLinCase(r *kit.Rand, tier string) LinCase {
	c := LinCase{Sched: kit.GenSched(r, kit.PickOf(r, "conc", "conc", "dense")), Knobs: kit.GenKnobs(r), NKeys: r.Range(1, 4), ValPad: kit.PickOf(r, 8, 60, 200), Restart: r.Bool(0.5)}
	c.Knobs.DiskUs = kit.PickOf(r, 0, 0, 100, 1000) // calls take virtual time: they overlap with timers and each other
	c.Sched.MaxVirtS = 3600
	c.Knobs.MemTableSize = kit.PickOf(r, int64(256), 256, 512, 1024, 4096)
	c.Knobs.CompactionInterval = 1
	if r.Bool(0.5) {
		c.Sched.TimePassP = kit.PickOf(r, 0.002, 0.01, 0.05)
	}
	nc := r.Range(2, 6)
	if tier == "thorough" {
		nc = r.Range(2, 8)
	}
	tag := 0
	perKey := make([]int, c.NKeys)
	for i := 0; i < nc; i++ {
		var ops []LinOp
		for j, n := 0, r.Range(2, 14); j < n; j++ {
			k := r.Intn(c.NKeys)
			if perKey[k] >= 55 {
				continue // keep each register's history checkable
			}
			perKey[k]++
			switch r.Pick(5, 5, 2) {
			case 0:
				tag++
				ops = append(ops, LinOp{K: "put", Key: k, Tag: tag, Empty: r.Bool(0.06)})
			case 1:
				ops = append(ops, LinOp{K: "get", Key: k})
			default:
				ops = append(ops, LinOp{K: "del", Key: k})
			}
		}
		c.Clients = append(c.Clients, ops)
	}
	for i, n := 0, r.Range(0, 12); i < n; i++ {
		c.Maint = append(c.Maint, kit.PickOf(r, "flush", "flush", "compact", "sleep"))
	}
	return c
}

func TestC06(t *testing.T) {
	kit.Main(t, kit.Spec[LinCase]{
		ID:  "C06",
		Gen: genLinCase,
		Run: runC06,
		Shrink: func(c LinCase) []LinCase {
			var out []LinCase
			if len(c.Clients) > 2 {
				for i := range c.Clients {
					d := c
					d.Clients = append(append([][]LinOp(nil), c.Clients[:i]...), c.Clients[i+1:]...)
					out = append(out, d)
				}
			}
			for i, ops := range c.Clients {
				for j := range ops {
					d := c
					d.Clients = append([][]LinOp(nil), c.Clients...)
					d.Clients[i] = append(append([]LinOp(nil), ops[:j]...), ops[j+1:]...)
					out = append(out, d)
				}
			}
			if len(c.Maint) > 0 {
				d := c
				d.Maint = c.Maint[:len(c.Maint)/2]
				out = append(out, d)
			}
			if c.Restart {
				d := c
				d.Restart = false
				out = append(out, d)
			}
			return out
		},
		Strip: func(c LinCase) any { d := c; d.Sched = kit.Sched{}; return d },
		Rule:  "2-6 (thorough: 2-8) client tasks issue puts (unique values; 6% empty values), gets and deletes on 1-4 keys while the engine's flush goroutine, log rotation and the compaction worker (1 s interval) run, plus a maintenance task (explicit flush/compact) and injected stalls; memtables of 256B-4KB rotate every few writes. Invoke/return stamped with a global event counter; final reads - in half of the cases also after a close and reopen - are appended; porcupine checks the history against one register per key (at most ~55 operations per key, 20 s cap; timeouts are counted inconclusive, never reported). non-trivial = at least one pair of overlapping operations of different clients",
	})
}
