package checks

import (
	"bytes"
	"fmt"
	"testing"

	"github.com/KevoDB/kevo/pkg/config"
	"github.com/KevoDB/kevo/pkg/memtable"
	"github.com/KevoDB/kevo/zsim/kit"
	"github.com/KevoDB/kevo/zsim/simrt"
	"github.com/KevoDB/kevo/zsim/simsync"
)

// C18 — the memtable is a correct ordered multi-version map under concurrent readers.
// memtable.MemTablePool / MemTable driven directly: one writer task inserting
// puts and deletes with arbitrary (non-monotone, repeated) sequence numbers
// and switching tables; 1-4 reader tasks doing Get, Seek and full iteration
// with a scheduling point at every atomic operation of the skip list.

type MemWrite struct {
	K   string `json:"k"` // put del switch
	Key int    `json:"key,omitempty"`
	Seq uint64 `json:"seq,omitempty"`
	Tag int    `json:"tag,omitempty"`
}

type MemCase struct {
	Sched   kit.Sched  `json:"sched"`
	Writes  []MemWrite `json:"writes"`
	Readers []int      `json:"readers"` // 0 pool get, 1 iterate a table, 2 seek in a table, 3 immutable stays the same
	ReadOps int        `json:"read_ops"`
	NKeys   int        `json:"nkeys"`
}

type memEnt struct {
	table int
	key   int
	seq   uint64
	del   bool
	val   string
	order int // insertion order
}

func memKey(i int) []byte { return []byte(fmt.Sprintf("mk%03d", i)) }

func runC18(t *testing.T, c MemCase) *kit.Result {
	res := kit.NewResult()
	cfg := c.Sched.Config()
	cfg.Verbose = kit.Verbose
	var sim *simrt.Sim
	out := simrt.Run(t, cfg, func() {
		sim = simrt.S
		mcfg := config.NewDefaultConfig("/n1/db")
		mcfg.MemTableSize = 1 << 30
		pool := memtable.NewMemTablePool(mcfg)
		tables := []*memtable.MemTable{pool.GetMemTables()[0]}
		var issued []memEnt // appended before the insert starts
		completed := 0      // number of issued entries whose insert has returned
		writerDone := false
		concurrentReads := 0
		fail := func(v *kit.Violation) {
			if res.V == nil {
				res.V = v
				simrt.Stop()
			}
		}
		var wg simsync.WaitGroup
		wg.Add(1)
		simrt.GoNamed("writer", func() {
			defer wg.Done()
			defer func() { writerDone = true }()
			for _, w := range c.Writes {
				if res.V != nil {
					return
				}
				switch w.K {
				case "switch":
					pool.SwitchToNewMemTable()
					tables = append(tables, pool.GetMemTables()[0])
				case "put":
					v := fmt.Sprintf("mv%05d", w.Tag)
					issued = append(issued, memEnt{table: len(tables) - 1, key: w.Key, seq: w.Seq, val: v, order: len(issued)})
					pool.Put(memKey(w.Key), []byte(v), w.Seq)
					completed = len(issued)
				case "del":
					issued = append(issued, memEnt{table: len(tables) - 1, key: w.Key, seq: w.Seq, del: true, order: len(issued)})
					pool.Delete(memKey(w.Key), w.Seq)
					completed = len(issued)
				}
			}
		})
		// walk iterates a table and checks order, membership and completeness
		// against what had been completed when the walk started.
		walk := func(ti int, who string) []memEnt {
			tb := tables[ti]
			before := completed
			nIssuedAtStart := len(issued)
			_ = nIssuedAtStart
			it := tb.NewIterator()
			var got []memEnt
			var pk []byte
			var ps uint64
			steps := 0
			for it.SeekToFirst(); it.Valid(); it.Next() {
				steps++
				if steps > len(c.Writes)+16 {
					fail(&kit.Violation{Kind: "memtable-structure", Signature: "memtable-iteration-does-not-end", Detail: fmt.Sprintf("%s: iteration of table %d yields more than %d entries (cycle?)", who, ti, len(c.Writes)+16)})
					return nil
				}
				k, s := it.Key(), it.SequenceNumber()
				if pk != nil {
					if cmp := bytes.Compare(pk, k); cmp > 0 || (cmp == 0 && ps < s) {
						fail(&kit.Violation{Kind: "memtable-order", Signature: "memtable-iteration-order", Detail: fmt.Sprintf("%s: table %d yields (%s,seq %d) after (%s,seq %d): not ascending by key, then newest first", who, ti, k, s, pk, ps)})
						return nil
					}
				}
				pk, ps = append(pk[:0], k...), s
				e := memEnt{table: ti, seq: s, del: it.IsTombstone(), val: string(it.Value())}
				fmt.Sscanf(string(k), "mk%03d", &e.key)
				got = append(got, e)
			}
			// nothing that was never inserted
			for _, g := range got {
				ok := false
				for _, e := range issued {
					if e.table == ti && e.key == g.key && e.seq == g.seq && e.del == g.del && (e.del || e.val == g.val) {
						ok = true
						break
					}
				}
				if !ok {
					fail(&kit.Violation{Kind: "memtable-content", Signature: "memtable-yields-uninserted-entry", Detail: fmt.Sprintf("%s: table %d yields (mk%03d seq %d del=%v %q) which was never inserted there", who, ti, g.key, g.seq, g.del, g.val)})
					return nil
				}
			}
			// everything inserted before the walk started
			for _, e := range issued[:before] {
				if e.table != ti {
					continue
				}
				found := false
				for _, g := range got {
					if g.key == e.key && g.seq == e.seq && g.del == e.del && (e.del || e.val == g.val) {
						found = true
						break
					}
				}
				if !found {
					fail(&kit.Violation{Kind: "memtable-content", Signature: "memtable-iteration-misses-entry", Detail: fmt.Sprintf("%s: iteration of table %d does not contain (mk%03d seq %d del=%v), inserted before the iteration started (writer done=%v)", who, ti, e.key, e.seq, e.del, writerDone)})
					return nil
				}
			}
			return got
		}
		for ri, kind := range c.Readers {
			ri, kind := ri, kind
			wg.Add(1)
			simrt.GoNamed(fmt.Sprintf("reader%d", ri), func() {
				defer wg.Done()
				rr := kit.NewRand(c.Sched.Seed ^ uint64(ri+1)*0x9e37)
				who := fmt.Sprintf("reader %d", ri)
				var frozen []memEnt
				frozenTable := -1
				for n := 0; n < c.ReadOps && res.V == nil; n++ {
					if !writerDone {
						concurrentReads++
					}
					switch kind {
					case 0: // pool lookup
						k := rr.Intn(c.NKeys)
						before := completed
						v, found := pool.Get(memKey(k))
						// the best entry among those completed before the call: newest table, then highest sequence
						best := -1
						for i, e := range issued[:before] {
							if e.key != k {
								continue
							}
							if best < 0 || e.table > issued[best].table || (e.table == issued[best].table && e.seq > issued[best].seq) {
								best = i
							}
						}
						if best >= 0 && !found {
							fail(&kit.Violation{Kind: "memtable-get", Signature: "memtable-get-misses-key", Detail: fmt.Sprintf("%s: Get(mk%03d) = not found, but (seq %d) was inserted before the call", who, k, issued[best].seq)})
							return
						}
						if found {
							// must be an inserted entry, not older than best
							ok := false
							for _, e := range issued {
								if e.key != k || (e.del != (v == nil)) || (!e.del && e.val != string(v)) {
									continue
								}
								if best < 0 || e.table > issued[best].table || (e.table == issued[best].table && e.seq >= issued[best].seq) {
									ok = true
									break
								}
							}
							if !ok {
								fail(&kit.Violation{Kind: "memtable-get", Signature: "memtable-get-stale-or-unknown", Detail: fmt.Sprintf("%s: Get(mk%03d) = (%q, deleted=%v), which is not the newest entry inserted before the call (table %d seq %d) nor a later one", who, k, v, v == nil, issued[max(best, 0)].table, issued[max(best, 0)].seq)})
								return
							}
						}
					case 1:
						walk(rr.Intn(len(tables)), who)
					case 2: // Seek(t) lands on the first entry with key >= t
						ti := rr.Intn(len(tables))
						k := rr.Intn(c.NKeys + 1)
						before := completed
						it := tables[ti].NewIterator()
						it.Seek(memKey(k))
						// the smallest key >= target among entries completed before the call
						want := -1
						for _, e := range issued[:before] {
							if e.table == ti && e.key >= k && (want < 0 || e.key < want) {
								want = e.key
							}
						}
						if want >= 0 {
							if !it.Valid() {
								fail(&kit.Violation{Kind: "memtable-seek", Signature: "memtable-seek-invalid", Detail: fmt.Sprintf("%s: Seek(mk%03d) in table %d is invalid, mk%03d was inserted before", who, k, ti, want)})
								return
							}
							var gk int
							fmt.Sscanf(string(it.Key()), "mk%03d", &gk)
							if gk < k || gk > want {
								fail(&kit.Violation{Kind: "memtable-seek", Signature: "memtable-seek-wrong-position", Detail: fmt.Sprintf("%s: Seek(mk%03d) in table %d lands on %s; the smallest key >= target inserted before the call is mk%03d", who, k, ti, it.Key(), want)})
								return
							}
						}
					case 3: // an immutable table never changes
						if frozenTable < 0 {
							if len(tables) < 2 {
								simrt.YieldAlways()
								continue
							}
							frozenTable = rr.Intn(len(tables) - 1)
							frozen = walk(frozenTable, who)
							continue
						}
						now := walk(frozenTable, who)
						if res.V == nil && fmt.Sprint(now) != fmt.Sprint(frozen) {
							fail(&kit.Violation{Kind: "memtable-immutable", Signature: "immutable-memtable-changed", Detail: fmt.Sprintf("%s: immutable table %d changed between two iterations: %v then %v", who, frozenTable, frozen, now)})
							return
						}
					}
				}
			})
		}
		wg.Wait()
		if res.V != nil {
			return
		}
		// sequential read-back: highest sequence wins per key and table
		for ti, tb := range tables {
			walk(ti, "final")
			if res.V != nil {
				return
			}
			for k := 0; k < c.NKeys; k++ {
				var best *memEnt
				tie := false
				for i := range issued {
					e := &issued[i]
					if e.table != ti || e.key != k {
						continue
					}
					if best == nil || e.seq > best.seq {
						best, tie = e, false
					} else if e.seq == best.seq && (e.del != best.del || e.val != best.val) {
						tie = true
					}
				}
				v, found := tb.Get(memKey(k))
				if best == nil {
					if found {
						fail(&kit.Violation{Kind: "memtable-get", Signature: "memtable-get-finds-uninserted", Detail: fmt.Sprintf("table %d: Get(mk%03d) finds %q, nothing was inserted", ti, k, v)})
						return
					}
					continue
				}
				if !found {
					fail(&kit.Violation{Kind: "memtable-get", Signature: "memtable-get-misses-key", Detail: fmt.Sprintf("table %d: Get(mk%03d) = not found; highest sequence inserted is %d", ti, k, best.seq)})
					return
				}
				if tie {
					continue // two different entries share the highest sequence: the statement does not fix the answer
				}
				if (v == nil) != best.del || (!best.del && string(v) != best.val) {
					fail(&kit.Violation{Kind: "memtable-get", Signature: "memtable-get-not-highest-sequence", Detail: fmt.Sprintf("table %d: Get(mk%03d) = (%q, deleted=%v); the entry with the highest sequence %d is (%q, deleted=%v)", ti, k, v, v == nil, best.seq, best.val, best.del)})
					return
				}
			}
		}
		res.Probes["reads_while_writer_active"] += int64(concurrentReads)
		res.Probes["tables"] += int64(len(tables))
		res.Nontrivial = len(issued) >= 3 && (concurrentReads > 0 || len(c.Readers) == 0)
		res.Note = fmt.Sprintf("%d inserts into %d tables, %d readers, %d read operations began while the writer was active", len(issued), len(tables), len(c.Readers), concurrentReads)
	})
	res.Absorb(out)
	if sim != nil && kit.Verbose {
		res.Trace = sim.TraceLines()
	}
	return res
}

func genMemCase(r *kit.Rand, tier string) MemCase {
	c := MemCase{Sched: kit.GenSched(r, kit.PickOf(r, "dense", "dense", "conc")), NKeys: r.Range(1, 8), ReadOps: r.Range(2, 14)}
	c.Sched.MaxVirtS = 600
	n := r.Range(3, 40)
	if tier == "thorough" {
		n = r.Range(3, 120)
	}
	var base uint64
	mono := r.Bool(0.3)
	for i := 0; i < n; i++ {
		switch r.Pick(12, 4, 1) {
		case 0, 1:
			seq := base + uint64(r.Range(1, 30))
			if mono {
				base++
				seq = base
			}
			w := MemWrite{K: "put", Key: r.Intn(c.NKeys), Seq: seq, Tag: i + 1}
			if r.Bool(0.25) {
				w.K = "del"
			}
			c.Writes = append(c.Writes, w)
		case 2:
			c.Writes = append(c.Writes, MemWrite{K: "switch"})
			base += 40 // sequence numbers keep growing across tables, as in the engine
		}
	}
	for i, m := 0, r.Range(0, 4); i < m; i++ {
		c.Readers = append(c.Readers, r.Pick(4, 4, 3, 2))
	}
	return c
}

func TestC18(t *testing.T) {
	kit.Main(t, kit.Spec[MemCase]{
		ID:  "C18",
		Gen: genMemCase,
		Run: runC18,
		Shrink: func(c MemCase) []MemCase {
			var out []MemCase
			n := len(c.Writes)
			for chunk := n / 2; chunk >= 1; chunk /= 2 {
				for i := 0; i+chunk <= n; i += chunk {
					d := c
					d.Writes = append(append([]MemWrite(nil), c.Writes[:i]...), c.Writes[i+chunk:]...)
					out = append(out, d)
				}
				if chunk == 1 {
					break
				}
			}
			for i := range c.Readers {
				d := c
				d.Readers = append(append([]int(nil), c.Readers[:i]...), c.Readers[i+1:]...)
				out = append(out, d)
			}
			if c.ReadOps > 1 {
				d := c
				d.ReadOps = c.ReadOps / 2
				out = append(out, d)
			}
			return out
		},
		Strip: func(c MemCase) any { d := c; d.Sched = kit.Sched{}; return d },
		Rule:  "one writer task inserts 3-40 (thorough: up to 120) puts/deletes with arbitrary sequence numbers (non-monotone and repeated inside a table, growing across table switches) into a MemTablePool and switches tables; 0-4 reader tasks do pool lookups, full iterations of a table, seeks, and repeated iterations of an immutable table, with a scheduling point at every atomic load/store of the skip list (dense) or sampled (conc). Every observation must be sorted (key ascending, sequence descending), finite, contain every entry whose insert returned before the observation began and nothing never inserted; an immutable table must not change; afterwards each table must return, per key, the entry with the highest sequence number (ties between different entries are not judged). non-trivial = >=3 inserts and >=1 read operation begun while the writer was active",
	})
}
