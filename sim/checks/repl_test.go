package checks

import (
	"bytes"
	"context"
	"fmt"
	"net"
	"sort"
	"time"

	"github.com/KevoDB/kevo/pkg/engine"
	"github.com/KevoDB/kevo/pkg/replication"
	"github.com/KevoDB/kevo/pkg/wal"
	pb "github.com/KevoDB/kevo/proto/kevo/replication"
	"github.com/KevoDB/kevo/zsim/kit"
	"github.com/KevoDB/kevo/zsim/simnet"
	"github.com/KevoDB/kevo/zsim/simos"
	"github.com/KevoDB/kevo/zsim/simrt"
)

// Shared harness of the replication checks (C13, C14, C15).
//
// Real code: both engines (WAL, memtables, SSTables, compaction), the
// replication Primary (observer, batcher, session table, heartbeat monitor,
// StreamWAL/Acknowledge/NegativeAcknowledge handlers), the Replica (state
// machine, batch applier, compression) and the EngineApplier.
// Stubbed: gRPC and TCP (package simnet) and replication.Manager, whose
// startPrimary/startReplica are mirrored by startPrimary/startReplica below
// (same constructor calls, same arguments) because it owns a real listener.

// ReplCfg are the replication settings a run varies.
type ReplCfg struct {
	BatchKB      int   `json:"batch_kb"`
	Compress     int   `json:"compress"` // primary: 0 off, 1 zstd, 2 snappy
	RespectTx    bool  `json:"respect_tx"`
	HBIntervalMs int64 `json:"hb_interval_ms"`
	HBTimeoutMs  int64 `json:"hb_timeout_ms"`
	RCompress    int   `json:"r_compress"` // replica: 0 unsupported, 1 prefers zstd, 2 prefers snappy, 3 supported/no preference
}

func genReplCfg(r *kit.Rand) ReplCfg {
	c := ReplCfg{
		BatchKB:   kit.PickOf(r, 1, 16, 256),
		Compress:  r.Pick(2, 2, 1),
		RespectTx: r.Bool(0.7),
		RCompress: r.Pick(1, 2, 1, 1),
	}
	switch r.Pick(2, 1, 1) {
	case 0:
		c.HBIntervalMs, c.HBTimeoutMs = 10000, 30000 // the defaults
	case 1:
		c.HBIntervalMs, c.HBTimeoutMs = 1000, 3000
	case 2:
		c.HBIntervalMs, c.HBTimeoutMs = 2000, 10000
	}
	return c
}

func codecOf(i int) pb.CompressionCodec {
	switch i {
	case 1:
		return pb.CompressionCodec_ZSTD
	case 2:
		return pb.CompressionCodec_SNAPPY
	}
	return pb.CompressionCodec_NONE
}

func (c ReplCfg) primaryConfig() *replication.PrimaryConfig {
	pc := replication.DefaultPrimaryConfig()
	pc.MaxBatchSizeKB = c.BatchKB
	pc.EnableCompression = c.Compress != 0
	pc.CompressionCodec = codecOf(c.Compress)
	pc.RespectTxBoundaries = c.RespectTx
	pc.HeartbeatConfig = &replication.HeartbeatConfig{
		Interval:           time.Duration(c.HBIntervalMs) * time.Millisecond,
		Timeout:            time.Duration(c.HBTimeoutMs) * time.Millisecond,
		SendEmptyResponses: true,
	}
	return pc
}

func (c ReplCfg) replicaConfig(node string) *replication.ReplicaConfig {
	rc := replication.DefaultReplicaConfig()
	rc.Connection.PrimaryAddress = "n1:50052"
	rc.ReplicationListenerAddr = node + ":50053"
	rc.CompressionSupported = c.RCompress != 0
	rc.PreferredCodec = codecOf(c.RCompress)
	return rc
}

// recApplier records what the replica hands to its applier and forwards it to
// the real EngineApplier.
type recApplied struct {
	Seq   uint64
	Type  uint8
	Key   []byte
	Val   []byte
	Err   error
	AtNs  int64
	State map[string][]byte // replica model after this apply (only when checking every step)
}

type recApplier struct {
	inner    replication.WALEntryApplier
	log      []recApplied
	model    map[string][]byte // what the replica's data must be, given what was applied
	maxSeqOK uint64
	syncs    int
	onApply  func(a *recApplied) // oracle hook, runs after the engine applied the entry
}

func newRecApplier(inner replication.WALEntryApplier) *recApplier {
	return &recApplier{inner: inner, model: map[string][]byte{}}
}

func (a *recApplier) Apply(e *wal.Entry) error {
	rec := recApplied{Seq: e.SequenceNumber, Type: e.Type, Key: append([]byte(nil), e.Key...), AtNs: simrt.Now()}
	if e.Type != wal.OpTypeDelete {
		rec.Val = append([]byte{}, e.Value...)
	}
	err := a.inner.Apply(e)
	rec.Err = err
	if err == nil {
		if e.Type == wal.OpTypeDelete {
			delete(a.model, string(rec.Key))
		} else {
			a.model[string(rec.Key)] = rec.Val
		}
		if e.SequenceNumber > a.maxSeqOK {
			a.maxSeqOK = e.SequenceNumber
		}
	}
	a.log = append(a.log, rec)
	simrt.Note("applied seq=%d type=%d key=%s err=%v", rec.Seq, rec.Type, kit.Q(rec.Key), err)
	if a.onApply != nil {
		a.onApply(&a.log[len(a.log)-1])
	}
	return err
}

func (a *recApplier) Sync() error {
	a.syncs++
	return a.inner.Sync()
}

// simConnector is the PrimaryConnector of the simulated transport.
type simConnector struct {
	link *simnet.Link
	conn *simnet.Conn
}

func (c *simConnector) Connect(r *replication.Replica) error {
	if r.VerifHasClient() && c.conn != nil && !c.conn.Closed() {
		return nil // as the default connector: keep an existing connection
	}
	if c.conn != nil {
		// The replica dropped its previous connection (handleErrorState closes
		// r.conn, a *grpc.ClientConn the simulation cannot substitute): closing
		// it cancels its streams on the primary, as the real Close does.
		c.conn.Close()
	}
	ctx, cancel := context.WithTimeout(context.Background(), 10*time.Second) // the default DialTimeout
	defer cancel()
	conn, err := c.link.Dial(ctx)
	if err != nil {
		return fmt.Errorf("failed to connect to primary at n1:50052: %w", err)
	}
	c.conn = conn
	r.VerifSetClient(conn)
	return nil
}

type replicaNode struct {
	name    string
	link    *simnet.Link
	conn    *simConnector
	e       *engine.EngineFacade
	mgr     *replication.Manager // when the manager seams are available
	rep     *replication.Replica
	rec     *recApplier
	running bool
	starts  int
	// carried across restarts for the oracles
	lastReported uint64
	bestK        int // largest primary prefix the applied entries amounted to so far
}

type replCluster struct {
	fs       *simos.FS
	net      *simnet.Net
	cfg      ReplCfg
	pk, rk   kit.Knobs
	pe       *engine.EngineFacade
	pmgr     *replication.Manager // when the manager seams are available
	primary  *replication.Primary
	replicas []*replicaNode
	onApply  func(rn *replicaNode, a *recApplied)
}

func newReplCluster(cfg ReplCfg, pk, rk kit.Knobs, nrep int, link simnet.LinkCfg) *replCluster {
	cl := &replCluster{fs: kit.NewFS(), net: simnet.New(), cfg: cfg, pk: pk, rk: rk}
	for i := 0; i < nrep; i++ {
		name := fmt.Sprintf("n%d", i+2)
		cl.replicas = append(cl.replicas, &replicaNode{name: name, link: cl.net.NewLink(name, link)})
	}
	cl.net.Srv.Tag = func() { kit.TagNode(cl.fs, "n1") }
	for _, rn := range cl.replicas {
		rn.conn = &simConnector{link: rn.link}
	}
	if replication.VerifHooked {
		// replication.Manager itself starts primary and replicas; its three
		// contacts with the outside world are routed to the simulation
		replication.VerifListen = func(addr string) (net.Listener, error) { return simnet.NewListener(addr), nil }
		replication.VerifNewConnector = func() replication.PrimaryConnector { return routeConnector{cl} }
		replication.VerifWrapApplier = func(addr string, a replication.WALEntryApplier) replication.WALEntryApplier {
			rn := cl.byAddr(addr)
			if rn == nil {
				return a
			}
			cl.wrapApplier(rn, a)
			return rn.rec
		}
	}
	return cl
}

func (cl *replCluster) byAddr(addr string) *replicaNode {
	for _, rn := range cl.replicas {
		if rn.name+":50053" == addr {
			return rn
		}
	}
	return nil
}

// routeConnector finds the node a Replica belongs to by its listener address.
type routeConnector struct{ cl *replCluster }

func (c routeConnector) Connect(r *replication.Replica) error {
	rn := c.cl.byAddr(r.VerifListenerAddr())
	if rn == nil {
		return fmt.Errorf("simulation: no node for replica %s", r.VerifListenerAddr())
	}
	return rn.conn.Connect(r)
}

// wrapApplier puts a fresh recorder around the node's applier.
func (cl *replCluster) wrapApplier(rn *replicaNode, inner replication.WALEntryApplier) {
	old := rn.rec
	rn.rec = newRecApplier(inner)
	if old != nil {
		// the replica's data survives a restart: so does what it must equal
		for k, v := range old.model {
			rn.rec.model[k] = v
		}
	}
	rn.rec.onApply = func(a *recApplied) {
		if cl.onApply != nil {
			cl.onApply(rn, a)
		}
	}
}

// setDiskLatency gives every state-changing I/O of every node a virtual
// duration of up to us microseconds, so that operations overlap in time with
// the network.
func (cl *replCluster) setDiskLatency(us int) {
	d := time.Duration(us) * time.Microsecond
	cl.fs.Node("n1").Latency = d
	for _, rn := range cl.replicas {
		cl.fs.Node(rn.name).Latency = d
	}
}

// startPrimary mirrors replication.Manager.startPrimary: the engine's WAL
// goes to NewPrimary, the primary is registered as the service.
func (cl *replCluster) startPrimary() error {
	var err error
	kit.OnNode(cl.fs, "n1", "primary-start", func() {
		cl.pe, err = kit.OpenEngine("n1", cl.pk)
		if err != nil {
			return
		}
		if replication.VerifHooked {
			mc := replication.DefaultManagerConfig()
			mc.Enabled, mc.Mode, mc.ListenAddr = true, replication.ReplicationModePrimary, "n1:50052"
			mc.PrimaryConfig = cl.cfg.primaryConfig()
			if cl.pmgr, err = replication.NewManager(cl.pe, mc); err != nil {
				return
			}
			if err = cl.pmgr.Start(); err != nil {
				return
			}
			cl.primary = cl.pmgr.VerifPrimary()
			if cl.primary == nil {
				err = fmt.Errorf("manager started no primary")
				return
			}
			cl.net.Srv.Impl = cl.primary
			return
		}
		w := cl.pe.GetWAL()
		if w == nil {
			err = fmt.Errorf("engine returned nil WAL")
			return
		}
		cl.primary, err = replication.NewPrimary(w, cl.cfg.primaryConfig())
		if err != nil {
			return
		}
		cl.net.Srv.Impl = cl.primary
	})
	return err
}

func (cl *replCluster) stopPrimary() {
	kit.OnNode(cl.fs, "n1", "primary-stop", func() {
		cl.net.ServerDown("primary stopped")
		if cl.primary != nil {
			cl.primary.Close()
			cl.primary = nil
		}
		if cl.pe != nil {
			cl.pe.Close()
			cl.pe = nil
		}
	})
}

// startReplica mirrors replication.Manager.startReplica: lastApplied 0, the
// engine applier, read-only engine.
func (cl *replCluster) startReplica(i int) error {
	rn := cl.replicas[i]
	var err error
	kit.OnNode(cl.fs, rn.name, rn.name+"-start", func() {
		rn.e, err = kit.OpenEngine(rn.name, cl.rk)
		if err != nil {
			return
		}
		if replication.VerifHooked {
			mc := replication.DefaultManagerConfig()
			mc.Enabled, mc.Mode = true, replication.ReplicationModeReplica
			mc.PrimaryAddr, mc.ListenAddr = "n1:50052", rn.name+":50053"
			mc.ReplicaConfig = cl.cfg.replicaConfig(rn.name)
			if rn.mgr, err = replication.NewManager(rn.e, mc); err != nil {
				return
			}
			if err = rn.mgr.Start(); err != nil {
				return
			}
			rn.rep = rn.mgr.VerifReplica()
			if rn.rep == nil || rn.rec == nil {
				err = fmt.Errorf("manager started no replica (or did not pass through the applier seam)")
				return
			}
			rn.running = true
			rn.starts++
			rn.lastReported = 0
			return
		}
		cl.wrapApplier(rn, replication.NewEngineApplier(rn.e))
		rn.rep, err = replication.NewReplica(0, rn.rec, cl.cfg.replicaConfig(rn.name))
		if err != nil {
			return
		}
		rn.rep.SetConnector(rn.conn)
		if err = rn.rep.Start(); err != nil {
			return
		}
		rn.e.SetReadOnly(true)
		rn.running = true
		rn.starts++
		rn.lastReported = 0
	})
	return err
}

// stopReplica is the orderly stop (Manager.Stop, then closing the engine).
func (cl *replCluster) stopReplica(i int) (stuck bool) {
	rn := cl.replicas[i]
	if !rn.running {
		return false
	}
	died := kit.OnNode(cl.fs, rn.name, rn.name+"-stop", func() {
		if rn.mgr != nil {
			rn.mgr.Stop()
		} else {
			rn.rep.Stop()
		}
		rn.link.ResetConns("replica stopped")
		rn.e.Close()
	})
	rn.running = false
	cl.fs.Restart(rn.name)
	return died
}

// stopReplicaKeepEngine stops the replica's state machine and connection but
// leaves its engine open for a final look.
func (cl *replCluster) stopReplicaKeepEngine(i int) (stuck bool) {
	rn := cl.replicas[i]
	if !rn.running {
		return false
	}
	return kit.OnNode(cl.fs, rn.name, rn.name+"-stop", func() {
		if rn.mgr != nil {
			rn.mgr.Stop()
		} else {
			rn.rep.Stop()
		}
		rn.link.ResetConns("replica stopped")
	})
}

// crashReplica kills the replica process (its files stay as written).
func (cl *replCluster) crashReplica(i int) {
	rn := cl.replicas[i]
	if !rn.running {
		return
	}
	cl.fs.CrashNow(rn.name)
	rn.link.ResetConns("replica died")
	rn.running = false
	cl.fs.Restart(rn.name)
}

// scanState reads an engine's visible state.
func scanState(e *engine.EngineFacade) (map[string][]byte, error) {
	ks, vs, problem, err := kit.ScanAll(e)
	if err != nil {
		return nil, err
	}
	if problem != "" {
		return nil, fmt.Errorf("%s", problem)
	}
	m := make(map[string][]byte, len(ks))
	for i, k := range ks {
		m[string(k)] = vs[i]
	}
	return m, nil
}

// entryPrefixMatch: does obs equal the primary's state after steps 1..k-1 plus
// any subset of the writes of step k (k in [1..n]), or exactly state n?
// This is "some prefix of the primary's write history" at entry granularity:
// the entries of one transaction or batch touch distinct keys, so which of
// them arrived first does not matter. Returns the largest matching k (a full
// match of state k counts as k) and whether the match is partial.
func entryPrefixMatch(m *kit.Model, obs map[string][]byte) (k int, partial, ok bool) {
	// Several readings can fit (deleting a key that step k-1 created gives the
	// state before k-1 again). Going down from the end and trying "exactly k"
	// before "k-1 plus part of k" finds the reading that credits the replica
	// with the most steps applied in full.
	for k = m.Len(); k >= 0; k-- {
		if kit.EqualState(obs, m.State(k)) == "" {
			return k, false, true
		}
		if k < 1 {
			break
		}
		inStep := map[string]bool{}
		for _, w := range m.Step(k) {
			inStep[string(w.Key)] = true
		}
		if len(inStep) < 2 {
			continue
		}
		good := true
		check := func(key string) {
			o, oOK := obs[key]
			n, nOK := m.State(k)[key]
			if oOK == nOK && bytes.Equal(o, n) {
				return
			}
			p, pOK := m.State(k - 1)[key]
			if inStep[key] && oOK == pOK && bytes.Equal(o, p) {
				return
			}
			good = false
		}
		for key := range obs {
			check(key)
		}
		for key := range m.State(k) {
			check(key)
		}
		for key := range m.State(k - 1) {
			check(key)
		}
		if good {
			return k, true, true
		}
	}
	return -1, false, false
}

func sortedKeysOf(m map[string][]byte) []string {
	out := make([]string, 0, len(m))
	for k := range m {
		out = append(out, k)
	}
	sort.Strings(out)
	return out
}

// netFaults folds the transport's counters into the result.
func netFaults(res *kit.Result, n *simnet.Net) {
	s := n.Stats
	res.Fault("net_conn_reset", s.Resets)
	res.Fault("net_dial_refused", s.DialsRefused)
	res.Fault("net_send_blocked_on_window", s.SendBlocked)
	res.Fault("net_msg_dropped", s.Dropped)
	res.Fault("net_msg_duplicated", s.Duplicated)
	res.Fault("net_msg_reordered", s.Reord)
	res.Fault("net_rpc_failed_before_handler", s.RPCFailedBefore)
	res.Fault("net_rpc_failed_after_handler", s.RPCFailedAfter)
	res.Probes["net_streams"] += s.Streams
	res.Probes["net_msgs_delivered"] += s.MsgsDelivered
	res.Probes["net_entries_sent"] += s.EntriesSent
	res.Probes["net_rpcs"] += s.RPCs
	res.Probes["net_heartbeats"] += s.Heartbeats
	res.Probes["net_concurrent_recv_on_one_stream"] += s.ConcurrentRecv
}
