// Package simnet is the simulated transport between kevo's replication
// primary and its replicas. It replaces the gRPC client connection, the gRPC
// server and TCP: a replica talks to an object implementing the generated
// WALReplicationServiceClient interface, the primary's handlers
// (StreamWAL/Acknowledge/NegativeAcknowledge) are run in tasks of the
// primary's node, and every message travels through queues the simulator owns.
//
// What is modelled (and nothing stronger than what gRPC over TCP can do):
//   - one-way latency with jitter, FIFO per stream;
//   - flow control: a stream holds at most Window bytes that the receiving
//     application has not consumed yet; Send blocks beyond that (Window is
//     never below gRPC's 64 KB minimum);
//   - a reader that stops reading (deliveries paused, window fills);
//   - partitions (both directions paused, dials fail) and heals;
//   - abrupt connection resets (in-flight data lost, both ends get an error);
//   - refused connections, a primary that is down;
//   - unary calls that fail with Unavailable before or after the handler ran.
//
// An explicitly adversarial mode (used only for the safety property of the
// replica's applier, never for liveness) additionally duplicates, drops and
// reorders whole stream messages.
//
// All state is touched only by the task holding the baton; waiting is done on
// real channels created inside the bubble, bracketed by Yield/Reacquire like
// kevo's own channel operations.
package simnet

import (
	"context"
	"fmt"
	"io"
	"net"
	"time"

	pb "github.com/KevoDB/kevo/proto/kevo/replication"
	"github.com/KevoDB/kevo/zsim/simrt"
	"google.golang.org/grpc"
	"google.golang.org/grpc/codes"
	"google.golang.org/grpc/metadata"
	"google.golang.org/grpc/status"
	"google.golang.org/protobuf/proto"
)

// MinWindow is the smallest flow-control window gRPC can be configured with.
const MinWindow = 64 * 1024

type Stats struct {
	Dials, DialsRefused        int64
	Streams                    int64
	MsgsSent, MsgsDelivered    int64
	BytesSent                  int64
	EntriesSent                int64
	SendBlocked                int64 // Send calls that had to wait for window
	SendFailed                 int64
	Dropped, Duplicated, Reord int64
	Resets                     int64
	RPCs, RPCFailedBefore      int64
	RPCFailedAfter             int64
	ConcurrentRecv             int64 // Recv entered while another Recv on the same stream was pending
	Heartbeats                 int64 // empty stream messages
}

// Server is the primary's endpoint.
type Server struct {
	Impl pb.WALReplicationServiceServer // nil: nothing listens
	Tag  func()                         // tags the running task with the primary's incarnation
}

type LinkCfg struct {
	LatMinUs int     `json:"lat_min_us"`
	LatMaxUs int     `json:"lat_max_us"`
	Window   int     `json:"window"`
	DupP     float64 `json:"dup_p,omitempty"`
	DropP    float64 `json:"drop_p,omitempty"`
	ReorderP float64 `json:"reorder_p,omitempty"`
	RPCFailP float64 `json:"rpc_fail_p,omitempty"`
}

type Net struct {
	Srv   Server
	Links []*Link
	Stats Stats
	cond  chan struct{}
	ids   int
	dead  bool
}

func New() *Net {
	n := &Net{cond: make(chan struct{})}
	// at the end of the run every waiter is released (and ended by the scheduler)
	simrt.AtTeardown(func() {
		n.dead = true
		close(n.cond)
	})
	return n
}

// notify wakes every waiter; they re-examine their condition.
func (n *Net) notify() {
	if n.dead {
		return
	}
	close(n.cond)
	n.cond = make(chan struct{})
}

// wait blocks until something changes, the context ends or d elapses (d<0: no timer).
func (n *Net) wait(ctx context.Context, d time.Duration) {
	c := n.cond
	var tc <-chan time.Time
	if d >= 0 {
		t := time.NewTimer(d)
		defer t.Stop()
		tc = t.C
	}
	var dc <-chan struct{}
	if ctx != nil {
		dc = ctx.Done()
	}
	simrt.Yield(simrt.CChan)
	select {
	case <-c:
	case <-tc:
	case <-dc:
	}
	simrt.Reacquire()
}

type Link struct {
	net       *Net
	Client    string
	Cfg       LinkCfg
	down      bool
	stallRecv bool
	refuse    bool
	conns     []*Conn
}

func (n *Net) NewLink(client string, cfg LinkCfg) *Link {
	if cfg.Window < MinWindow {
		cfg.Window = MinWindow
	}
	if cfg.LatMaxUs < cfg.LatMinUs {
		cfg.LatMaxUs = cfg.LatMinUs
	}
	l := &Link{net: n, Client: client, Cfg: cfg}
	n.Links = append(n.Links, l)
	return l
}

func (l *Link) latency() time.Duration {
	us := l.Cfg.LatMinUs
	if l.Cfg.LatMaxUs > l.Cfg.LatMinUs {
		us += simrt.Intn(l.Cfg.LatMaxUs - l.Cfg.LatMinUs + 1)
	}
	return time.Duration(us) * time.Microsecond
}

// SetDown partitions (true) or heals (false) the link.
func (l *Link) SetDown(v bool) { l.down = v; simrt.Note("net %s down=%v", l.Client, v); l.net.notify() }

// SetStallRecv pauses (true) or resumes delivery of stream messages to the client.
func (l *Link) SetStallRecv(v bool) {
	l.stallRecv = v
	simrt.Note("net %s stallrecv=%v", l.Client, v)
	l.net.notify()
}

// SetRefuse makes new connection attempts fail.
func (l *Link) SetRefuse(v bool) { l.refuse = v }

func (l *Link) Down() bool { return l.down }

// ResetConns abruptly closes every connection of the link.
func (l *Link) ResetConns(why string) int {
	n := 0
	for _, c := range l.conns {
		if !c.closed {
			c.reset(why)
			n++
		}
	}
	return n
}

// OpenStreams counts streams whose server handler has not returned.
func (l *Link) OpenStreams() int {
	n := 0
	for _, c := range l.conns {
		for _, s := range c.streams {
			if !s.srvDone {
				n++
			}
		}
	}
	return n
}

// WindowFull reports whether a sender is waiting for window on a stream of the link.
func (l *Link) WindowFull() bool {
	for _, c := range l.conns {
		for _, s := range c.streams {
			if s.blockedTx > 0 && !s.aborted {
				return true
			}
		}
	}
	return false
}

// ServerDown closes everything (the primary process died or was stopped).
func (n *Net) ServerDown(why string) {
	n.Srv.Impl = nil
	for _, l := range n.Links {
		l.ResetConns(why)
	}
	n.notify()
}

// Dial opens a connection. It fails if the link is down, refused or nobody listens.
func (l *Link) Dial(ctx context.Context) (*Conn, error) {
	l.net.Stats.Dials++
	if err := sleepCtx(l.net, ctx, l.latency()); err != nil {
		return nil, err
	}
	if l.down || l.refuse || l.net.Srv.Impl == nil {
		l.net.Stats.DialsRefused++
		return nil, status.Error(codes.Unavailable, "simnet: connection refused")
	}
	l.net.ids++
	c := &Conn{link: l, id: l.net.ids}
	l.conns = append(l.conns, c)
	simrt.Note("net %s dial conn%d", l.Client, c.id)
	return c, nil
}

func sleepCtx(n *Net, ctx context.Context, d time.Duration) error {
	end := simrt.Now() + int64(d)
	for {
		if ctx != nil && ctx.Err() != nil {
			return status.FromContextError(ctx.Err()).Err()
		}
		left := end - simrt.Now()
		if left <= 0 {
			return nil
		}
		n.wait(ctx, time.Duration(left))
	}
}

// ---------------------------------------------------------------- connection

type Conn struct {
	link    *Link
	id      int
	closed  bool
	why     string
	streams []*Stream
}

var _ pb.WALReplicationServiceClient = (*Conn)(nil)

func (c *Conn) Closed() bool { return c.closed }

// Close is the orderly client-side close.
func (c *Conn) Close() { c.reset("client closed the connection") }

func (c *Conn) reset(why string) {
	if c.closed {
		return
	}
	c.closed = true
	c.why = why
	c.link.net.Stats.Resets++
	simrt.Note("net %s conn%d reset: %s", c.link.Client, c.id, why)
	for _, s := range c.streams {
		s.abort(status.Error(codes.Unavailable, "simnet: "+why))
	}
	c.link.net.notify()
}

func (c *Conn) unavailable() error {
	return status.Error(codes.Unavailable, "simnet: "+c.why)
}

// leg carries one direction of a unary call.
func (c *Conn) leg(ctx context.Context) error {
	n := c.link.net
	end := simrt.Now() + int64(c.link.latency())
	for {
		if c.closed {
			return c.unavailable()
		}
		if ctx.Err() != nil {
			return status.FromContextError(ctx.Err()).Err()
		}
		left := end - simrt.Now()
		if !c.link.down && left <= 0 {
			return nil
		}
		if c.link.down {
			n.wait(ctx, -1)
		} else {
			n.wait(ctx, time.Duration(left))
		}
	}
}

func serverCtx(ctx context.Context) context.Context {
	sctx := context.Background()
	if md, ok := metadata.FromOutgoingContext(ctx); ok {
		sctx = metadata.NewIncomingContext(sctx, md.Copy())
	}
	return sctx
}

func toStatusErr(err error) error {
	if err == nil {
		return nil
	}
	if _, ok := status.FromError(err); ok {
		return err
	}
	if err == context.Canceled || err == context.DeadlineExceeded {
		return status.FromContextError(err).Err()
	}
	return status.Error(codes.Unknown, err.Error())
}

// unary runs handler in a task of the primary and carries request and response.
func (c *Conn) unary(ctx context.Context, name string, handler func(srv pb.WALReplicationServiceServer, sctx context.Context) (proto.Message, error)) (proto.Message, error) {
	n := c.link.net
	n.Stats.RPCs++
	failBefore, failAfter := false, false
	if p := c.link.Cfg.RPCFailP; p > 0 && simrt.Float() < p {
		if simrt.Intn(2) == 0 {
			failBefore = true
		} else {
			failAfter = true
		}
	}
	if err := c.leg(ctx); err != nil {
		return nil, err
	}
	if failBefore {
		n.Stats.RPCFailedBefore++
		c.reset("connection broke before the " + name + " request arrived")
		return nil, c.unavailable()
	}
	srv := n.Srv.Impl
	if srv == nil {
		c.reset("primary is down")
		return nil, c.unavailable()
	}
	var resp proto.Message
	var herr error
	finished := false
	done := make(chan struct{})
	sctx := serverCtx(ctx)
	simrt.GoNamed(fmt.Sprintf("rpc-%s<%s", name, c.link.Client), func() {
		defer close(done)
		if n.Srv.Tag != nil {
			n.Srv.Tag()
		}
		simrt.AdvanceSkew(time.Microsecond)
		resp, herr = handler(srv, sctx)
		finished = true
	})
	simrt.Yield(simrt.CChan)
	select {
	case <-done:
	case <-ctx.Done():
	}
	simrt.Reacquire()
	if !finished {
		if ctx.Err() != nil {
			return nil, status.FromContextError(ctx.Err()).Err()
		}
		c.reset("primary died while handling " + name)
		return nil, c.unavailable()
	}
	if failAfter {
		n.Stats.RPCFailedAfter++
		c.reset("connection broke before the " + name + " response arrived")
		return nil, c.unavailable()
	}
	if err := c.leg(ctx); err != nil {
		return nil, err
	}
	if herr != nil {
		return nil, toStatusErr(herr)
	}
	return proto.Clone(resp), nil
}

func (c *Conn) Acknowledge(ctx context.Context, in *pb.Ack, opts ...grpc.CallOption) (*pb.AckResponse, error) {
	req := proto.Clone(in).(*pb.Ack)
	r, err := c.unary(ctx, "ack", func(srv pb.WALReplicationServiceServer, sctx context.Context) (proto.Message, error) {
		resp, err := srv.Acknowledge(sctx, req)
		if resp == nil {
			return nil, err
		}
		return resp, err
	})
	if err != nil {
		return nil, err
	}
	return r.(*pb.AckResponse), nil
}

func (c *Conn) NegativeAcknowledge(ctx context.Context, in *pb.Nack, opts ...grpc.CallOption) (*pb.NackResponse, error) {
	req := proto.Clone(in).(*pb.Nack)
	r, err := c.unary(ctx, "nack", func(srv pb.WALReplicationServiceServer, sctx context.Context) (proto.Message, error) {
		resp, err := srv.NegativeAcknowledge(sctx, req)
		if resp == nil {
			return nil, err
		}
		return resp, err
	})
	if err != nil {
		return nil, err
	}
	return r.(*pb.NackResponse), nil
}

// ---------------------------------------------------------------- stream

type msg struct {
	m    *pb.WALStreamResponse
	size int
	at   int64
}

type Stream struct {
	conn      *Conn
	id        int
	cctx      context.Context
	sctx      context.Context
	scancel   context.CancelFunc
	hdr       metadata.MD
	hdrSet    bool
	hdrAt     int64
	q         []msg
	inflight  int
	lastAt    int64
	srvDone   bool  // handler returned
	finalErr  error // handler's result
	aborted   bool
	abortErr  error
	recvers   int
	blockedTx int // senders waiting for window
	Delivered int64
}

func msgSize(m *pb.WALStreamResponse) int {
	n := 16
	for _, e := range m.Entries {
		n += 24 + len(e.Payload)
	}
	return n
}

func (s *Stream) abort(err error) {
	if s.aborted {
		return
	}
	s.aborted = true
	s.abortErr = err
	s.q = nil
	s.inflight = 0
	s.scancel()
}

func (c *Conn) StreamWAL(ctx context.Context, in *pb.WALStreamRequest, opts ...grpc.CallOption) (grpc.ServerStreamingClient[pb.WALStreamResponse], error) {
	n := c.link.net
	if c.closed {
		return nil, c.unavailable()
	}
	if ctx.Err() != nil {
		return nil, status.FromContextError(ctx.Err()).Err()
	}
	n.Stats.Streams++
	n.ids++
	st := &Stream{conn: c, id: n.ids, cctx: ctx}
	st.sctx, st.scancel = context.WithCancel(serverCtx(ctx))
	c.streams = append(c.streams, st)
	req := proto.Clone(in).(*pb.WALStreamRequest)
	simrt.Note("net %s stream%d open start=%d", c.link.Client, st.id, in.StartSequence)
	// server side
	simrt.GoNamed(fmt.Sprintf("stream%d<%s", st.id, c.link.Client), func() {
		defer func() {
			if !st.srvDone {
				// the handler task died with the primary
				st.srvDone = true
				st.finalErr = status.Error(codes.Unavailable, "simnet: primary died")
				n.notify()
			}
		}()
		if n.Srv.Tag != nil {
			n.Srv.Tag()
		}
		if err := c.leg(st.sctx); err != nil {
			st.srvDone, st.finalErr = true, err
			n.notify()
			return
		}
		srv := n.Srv.Impl
		if srv == nil {
			st.srvDone, st.finalErr = true, status.Error(codes.Unavailable, "simnet: primary is down")
			n.notify()
			return
		}
		simrt.AdvanceSkew(time.Microsecond)
		err := srv.StreamWAL(req, &serverStream{st})
		st.srvDone, st.finalErr = true, err
		st.scancel()
		simrt.Note("net stream%d handler returned: %v", st.id, err)
		n.notify()
	})
	// the client cancelling its context resets the stream
	simrt.GoNamed(fmt.Sprintf("watch%d<%s", st.id, c.link.Client), func() {
		for !st.srvDone && !st.aborted {
			if ctx.Err() != nil {
				st.abort(status.FromContextError(ctx.Err()).Err())
				n.notify()
				return
			}
			n.wait(ctx, -1)
		}
	})
	return &clientStream{st}, nil
}

// -------- server side of a stream

type serverStream struct{ st *Stream }

var _ grpc.ServerStreamingServer[pb.WALStreamResponse] = (*serverStream)(nil)

func (s *serverStream) SetHeader(md metadata.MD) error {
	s.st.hdr = metadata.Join(s.st.hdr, md)
	return nil
}

func (s *serverStream) SendHeader(md metadata.MD) error {
	st := s.st
	if st.aborted {
		return st.abortErr
	}
	st.hdr = metadata.Join(st.hdr, md)
	if !st.hdrSet {
		st.hdrSet = true
		st.hdrAt = simrt.Now() + int64(st.conn.link.latency())
		if st.hdrAt < st.lastAt {
			st.hdrAt = st.lastAt
		}
		st.lastAt = st.hdrAt
	}
	st.conn.link.net.notify()
	return nil
}

func (s *serverStream) SetTrailer(md metadata.MD) {}
func (s *serverStream) Context() context.Context  { return s.st.sctx }
func (s *serverStream) SendMsg(m any) error       { return s.Send(m.(*pb.WALStreamResponse)) }
func (s *serverStream) RecvMsg(m any) error       { return io.EOF }
func (s *serverStream) sendHeaderIfNeeded()       { _ = s.SendHeader(nil) }
func (s *serverStream) String() string            { return fmt.Sprintf("stream%d", s.st.id) }

// Send enqueues a copy of m; it blocks while the receiver's window is full.
func (s *serverStream) Send(m *pb.WALStreamResponse) error {
	st := s.st
	l := st.conn.link
	n := l.net
	if !st.hdrSet {
		s.sendHeaderIfNeeded()
	}
	cp := proto.Clone(m).(*pb.WALStreamResponse)
	size := msgSize(cp)
	blocked := false
	for {
		if st.aborted {
			n.Stats.SendFailed++
			return st.abortErr
		}
		if st.sctx.Err() != nil {
			n.Stats.SendFailed++
			return status.FromContextError(st.sctx.Err()).Err()
		}
		if st.inflight == 0 || st.inflight+size <= l.Cfg.Window {
			break
		}
		if !blocked {
			blocked = true
			st.blockedTx++
			defer func() { st.blockedTx-- }()
			n.Stats.SendBlocked++
			simrt.Note("net stream%d send blocks (window %d, in flight %d)", st.id, l.Cfg.Window, st.inflight)
		}
		n.wait(st.sctx, -1)
	}
	n.Stats.MsgsSent++
	n.Stats.BytesSent += int64(size)
	n.Stats.EntriesSent += int64(len(cp.Entries))
	if len(cp.Entries) == 0 {
		n.Stats.Heartbeats++
	}
	first, last := uint64(0), uint64(0)
	if len(cp.Entries) > 0 {
		first, last = cp.Entries[0].SequenceNumber, cp.Entries[len(cp.Entries)-1].SequenceNumber
	}
	simrt.Note("net stream%d send %d entries seq %d..%d", st.id, len(cp.Entries), first, last)
	// adversarial faults on whole messages
	if p := l.Cfg.DropP; p > 0 && simrt.Float() < p {
		n.Stats.Dropped++
		simrt.Note("net stream%d message dropped", st.id)
		return nil
	}
	at := simrt.Now() + int64(l.latency())
	if at < st.lastAt {
		at = st.lastAt
	}
	st.lastAt = at
	st.q = append(st.q, msg{cp, size, at})
	st.inflight += size
	if p := l.Cfg.ReorderP; p > 0 && len(st.q) >= 2 && simrt.Float() < p {
		k := len(st.q)
		st.q[k-1].m, st.q[k-2].m = st.q[k-2].m, st.q[k-1].m
		st.q[k-1].size, st.q[k-2].size = st.q[k-2].size, st.q[k-1].size
		n.Stats.Reord++
		simrt.Note("net stream%d message reordered", st.id)
	}
	if p := l.Cfg.DupP; p > 0 && simrt.Float() < p {
		st.q = append(st.q, msg{proto.Clone(cp).(*pb.WALStreamResponse), size, at})
		st.inflight += size
		n.Stats.Duplicated++
		simrt.Note("net stream%d message duplicated", st.id)
	}
	n.notify()
	return nil
}

// -------- client side of a stream

type clientStream struct{ st *Stream }

var _ grpc.ServerStreamingClient[pb.WALStreamResponse] = (*clientStream)(nil)

func (c *clientStream) paused() bool {
	l := c.st.conn.link
	return l.down || l.stallRecv
}

func (c *clientStream) Header() (metadata.MD, error) {
	st := c.st
	n := st.conn.link.net
	for {
		if st.aborted {
			return nil, st.abortErr
		}
		if st.cctx.Err() != nil {
			return nil, status.FromContextError(st.cctx.Err()).Err()
		}
		if st.hdrSet && !c.paused() {
			left := st.hdrAt - simrt.Now()
			if left <= 0 {
				return st.hdr.Copy(), nil
			}
			n.wait(st.cctx, time.Duration(left))
			continue
		}
		if st.srvDone && !st.hdrSet {
			if st.finalErr != nil {
				return nil, toStatusErr(st.finalErr)
			}
			return metadata.MD{}, nil
		}
		n.wait(st.cctx, -1)
	}
}

func (c *clientStream) Trailer() metadata.MD     { return nil }
func (c *clientStream) CloseSend() error         { return nil }
func (c *clientStream) Context() context.Context { return c.st.cctx }
func (c *clientStream) SendMsg(m any) error      { return nil }
func (c *clientStream) RecvMsg(m any) error {
	r, err := c.Recv()
	if err != nil {
		return err
	}
	proto.Merge(m.(proto.Message), r)
	return nil
}

func (c *clientStream) Recv() (*pb.WALStreamResponse, error) {
	st := c.st
	n := st.conn.link.net
	if st.recvers > 0 {
		n.Stats.ConcurrentRecv++
	}
	st.recvers++
	defer func() { st.recvers-- }()
	for {
		if st.aborted {
			return nil, st.abortErr
		}
		if st.cctx.Err() != nil {
			return nil, status.FromContextError(st.cctx.Err()).Err()
		}
		if len(st.q) > 0 && !c.paused() {
			left := st.q[0].at - simrt.Now()
			if left <= 0 {
				m := st.q[0]
				st.q[0] = msg{}
				st.q = st.q[1:]
				st.inflight -= m.size
				if len(st.q) == 0 {
					st.inflight = 0
				}
				n.Stats.MsgsDelivered++
				st.Delivered++
				first := uint64(0)
				if len(m.m.Entries) > 0 {
					first = m.m.Entries[0].SequenceNumber
				}
				simrt.Note("net stream%d deliver %d entries from seq %d", st.id, len(m.m.Entries), first)
				n.notify()
				return m.m, nil
			}
			n.wait(st.cctx, time.Duration(left))
			continue
		}
		if len(st.q) == 0 && st.srvDone {
			if st.finalErr != nil {
				return nil, toStatusErr(st.finalErr)
			}
			return nil, io.EOF
		}
		n.wait(st.cctx, -1)
	}
}

// ---------------------------------------------------------------- listener

// Listener stands in for the TCP listener of the primary's gRPC server when
// replication.Manager itself runs in the simulation: grpc's Serve parks in
// Accept until the listener is closed. Connections never arrive here - the
// service is reached through Net.
type Listener struct {
	addr   string
	closed chan struct{}
	done   bool
}

func NewListener(addr string) *Listener {
	l := &Listener{addr: addr, closed: make(chan struct{})}
	simrt.AtTeardown(func() { l.shut() })
	return l
}

func (l *Listener) shut() {
	if !l.done {
		l.done = true
		close(l.closed)
	}
}

func (l *Listener) Accept() (net.Conn, error) {
	simrt.Yield(simrt.CChan)
	<-l.closed
	simrt.Reacquire()
	return nil, net.ErrClosed
}

func (l *Listener) Close() error { l.shut(); return nil }

type simAddr string

func (a simAddr) Network() string { return "sim" }
func (a simAddr) String() string  { return string(a) }

func (l *Listener) Addr() net.Addr { return simAddr(l.addr) }
