package kit

import (
	"fmt"
	"os"
	"sort"
	"strings"
)

var raceLogOff int64

// raceLogPath returns the file the race detector of this process writes to
// (GORACE log_path=<prefix> gives <prefix>.<pid>).
func raceLogPath() string {
	for _, f := range strings.Fields(os.Getenv("GORACE")) {
		if strings.HasPrefix(f, "log_path=") {
			return fmt.Sprintf("%s.%d", strings.TrimPrefix(f, "log_path="), os.Getpid())
		}
	}
	return ""
}

// RaceLogDelta returns what the race detector reported since the last call.
func RaceLogDelta() string {
	p := raceLogPath()
	if p == "" {
		return ""
	}
	b, err := os.ReadFile(p)
	if err != nil || int64(len(b)) <= raceLogOff {
		return ""
	}
	d := string(b[raceLogOff:])
	raceLogOff = int64(len(b))
	return d
}

// RaceSignature names a report by the innermost kevo functions of its two stacks.
func RaceSignature(report string) string {
	var tops []string
	inStack := false
	found := false
	for _, line := range strings.Split(report, "\n") {
		l := strings.TrimSpace(line)
		switch {
		case strings.HasPrefix(l, "Write at") || strings.HasPrefix(l, "Read at") || strings.HasPrefix(l, "Previous write at") || strings.HasPrefix(l, "Previous read at") ||
			strings.HasPrefix(l, "Atomic write at") || strings.HasPrefix(l, "Previous atomic write at") || strings.HasPrefix(l, "Atomic read at") || strings.HasPrefix(l, "Previous atomic read at"):
			inStack, found = true, false
		case strings.HasPrefix(l, "Goroutine ") || l == "" || strings.HasPrefix(l, "=========="):
			if l == "" {
				inStack = false
			}
		case inStack && !found && strings.Contains(l, "github.com/KevoDB/kevo/pkg/") && strings.HasSuffix(l, "()"):
			fn := strings.TrimSuffix(strings.TrimPrefix(l, "github.com/KevoDB/kevo/"), "()")
			tops = append(tops, fn)
			found = true
		}
		if len(tops) == 2 {
			break
		}
	}
	sort.Strings(tops)
	if len(tops) == 0 {
		return "race:unattributed"
	}
	return "race:" + strings.Join(tops, "|")
}

// KevoRaces keeps, of a race detector log, the reports in which both accesses
// were made by kevo's own code: walking each access stack from the top, past
// frames of the Go runtime and standard library, the first frame must be a
// function under github.com/KevoDB/kevo/pkg/. Reports between parts of the
// harness (whose tasks share plain variables by design, the baton being
// invisible to the detector) are dropped.
func KevoRaces(log string) string {
	var keep []string
	for _, rep := range strings.Split(log, "==================") {
		if !strings.Contains(rep, "DATA RACE") {
			continue
		}
		stacks, ok := 0, 0
		lines := strings.Split(rep, "\n")
		for i := 0; i < len(lines); i++ {
			l := strings.TrimSpace(lines[i])
			if !(strings.HasPrefix(l, "Write at") || strings.HasPrefix(l, "Read at") || strings.HasPrefix(l, "Previous write at") || strings.HasPrefix(l, "Previous read at") ||
				strings.HasPrefix(l, "Atomic write at") || strings.HasPrefix(l, "Previous atomic write at") || strings.HasPrefix(l, "Atomic read at") || strings.HasPrefix(l, "Previous atomic read at")) {
				continue
			}
			stacks++
			for j := i + 1; j < len(lines); j++ {
				f := strings.TrimSpace(lines[j])
				if f == "" {
					break
				}
				if !strings.HasSuffix(f, ")") || strings.Contains(f, ".go:") {
					continue // file:line lines
				}
				if strings.HasPrefix(f, "runtime.") || strings.HasPrefix(f, "internal/") || strings.HasPrefix(f, "sync.") || strings.HasPrefix(f, "sync/") ||
					strings.HasPrefix(f, "bytes.") || strings.HasPrefix(f, "strings.") || strings.HasPrefix(f, "sort.") || strings.HasPrefix(f, "fmt.") || strings.HasPrefix(f, "time.") {
					continue
				}
				if strings.HasPrefix(f, "github.com/KevoDB/kevo/pkg/") {
					ok++
				}
				break
			}
		}
		if stacks >= 2 && ok >= 2 {
			keep = append(keep, "==================\n"+strings.TrimSpace(rep)+"\n==================\n")
		}
	}
	return strings.Join(keep, "")
}
