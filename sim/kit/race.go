package kit

import (
	"fmt"
	"os"
	"sort"
	"strings"
)

var raceLogOff int64

// raceLogPath returns the file the race detector of this process writes to
// (GORACE log_path=<prefix> gives <prefix>.<pid>).
func raceLogPath() string {
	for _, f := range strings.Fields(os.Getenv("GORACE")) {
		if strings.HasPrefix(f, "log_path=") {
			return fmt.Sprintf("%s.%d", strings.TrimPrefix(f, "log_path="), os.Getpid())
		}
	}
	return ""
}

// RaceLogDelta returns what the race detector reported since the last call.
func RaceLogDelta() string {
	p := raceLogPath()
	if p == "" {
		return ""
	}
	b, err := os.ReadFile(p)
	if err != nil || int64(len(b)) <= raceLogOff {
		return ""
	}
	d := string(b[raceLogOff:])
	raceLogOff = int64(len(b))
	return d
}

// RaceSignature names a report by the innermost kevo functions of its two stacks.
func RaceSignature(report string) string {
	var tops []string
	inStack := false
	found := false
	for _, line := range strings.Split(report, "\n") {
		l := strings.TrimSpace(line)
		switch {
		case strings.HasPrefix(l, "Write at") || strings.HasPrefix(l, "Read at") || strings.HasPrefix(l, "Previous write at") || strings.HasPrefix(l, "Previous read at") ||
			strings.HasPrefix(l, "Atomic write at") || strings.HasPrefix(l, "Previous atomic write at") || strings.HasPrefix(l, "Atomic read at") || strings.HasPrefix(l, "Previous atomic read at"):
			inStack, found = true, false
		case strings.HasPrefix(l, "Goroutine ") || l == "" || strings.HasPrefix(l, "=========="):
			if l == "" {
				inStack = false
			}
		case inStack && !found && strings.Contains(l, "github.com/KevoDB/kevo/pkg/") && strings.HasSuffix(l, "()"):
			fn := strings.TrimSuffix(strings.TrimPrefix(l, "github.com/KevoDB/kevo/"), "()")
			tops = append(tops, fn)
			found = true
		}
		if len(tops) == 2 {
			break
		}
	}
	sort.Strings(tops)
	if len(tops) == 0 {
		return "race:unattributed"
	}
	return "race:" + strings.Join(tops, "|")
}
