package kit

import (
	"encoding/binary"
	"fmt"
	"strings"
)

// Op is one operation of a generated programme (shared by the KV checks).
type Op struct {
	K      string `json:"k"` // put del get txn batch flush compact crange reopen sleep scan crash
	Key    []byte `json:"key,omitempty"`
	End    []byte `json:"end,omitempty"`
	Tag    uint32 `json:"tag,omitempty"`
	Len    int    `json:"len,omitempty"`
	Nil    bool   `json:"nil,omitempty"`    // put with a nil value slice
	Sub    []Op   `json:"sub,omitempty"`    // txn / batch body
	Commit bool   `json:"commit,omitempty"` // txn: commit (else rollback)
	D      int64  `json:"d,omitempty"`      // sleep: virtual milliseconds
	RO     bool   `json:"ro,omitempty"`     // txn: read-only
	Fill   byte   `json:"fill,omitempty"`   // put: the value's body is this byte repeated (0: pseudo-random bytes)
	// txn only:
	Scribble bool `json:"scribble,omitempty"` // caller overwrites its key/value buffers right after each tx.Put/Delete
	Abandon  bool `json:"abandon,omitempty"`  // neither commit nor rollback
	FailIO   int  `json:"fail_io,omitempty"`  // 1: the next file write fails, 2: the next fsync fails (armed before Commit)

	PreCommit func() `json:"-"` // harness hook run right before Commit
}

func (o Op) String() string {
	switch o.K {
	case "put":
		return fmt.Sprintf("put(%s,#%d/%d)", Q(o.Key), o.Tag, o.Len)
	case "del", "get":
		return fmt.Sprintf("%s(%s)", o.K, Q(o.Key))
	case "txn", "batch":
		var subs []string
		for _, s := range o.Sub {
			subs = append(subs, s.String())
		}
		end := ""
		if o.K == "txn" {
			end = " rollback"
			if o.Commit {
				end = " commit"
			}
			if o.Abandon {
				end = " abandon"
			}
			if o.Scribble {
				end += "+scribble"
			}
			if o.FailIO > 0 {
				end += fmt.Sprintf("+failio%d", o.FailIO)
			}
		}
		return fmt.Sprintf("%s{%s}%s", o.K, strings.Join(subs, " "), end)
	case "sleep":
		return fmt.Sprintf("sleep(%dms)", o.D)
	case "crange", "scan":
		return fmt.Sprintf("%s(%s,%s)", o.K, Q(o.Key), Q(o.End))
	}
	return o.K
}

func ProgString(ops []Op) string {
	var s []string
	for _, o := range ops {
		s = append(s, o.String())
	}
	return strings.Join(s, "; ")
}

// Value materialises the value of a put: unique per tag, every byte value
// occurs, empty when Len==0.
func (o Op) Value() []byte {
	if o.Nil {
		return nil
	}
	v := MakeValue(o.Tag, o.Len)
	if o.Fill != 0 {
		for i := 8; i < len(v); i++ {
			v[i] = o.Fill
		}
	}
	return v
}

func MakeValue(tag uint32, n int) []byte {
	v := make([]byte, n)
	if n == 0 {
		return v
	}
	head := fmt.Sprintf("v%06d.", tag)
	copy(v, head)
	x := uint64(tag)*0x9e3779b97f4a7c15 + 1
	for i := len(head); i < n; i += 8 {
		x = mix(x)
		var b [8]byte
		binary.LittleEndian.PutUint64(b[:], x)
		copy(v[i:], b[:])
	}
	return v
}

// Writes returns the model writes of a write op (put/del/batch/committed txn),
// applying last-operation-wins inside a transaction in op order.
func (o Op) Writes() []W {
	switch o.K {
	case "put":
		return []W{{Key: o.Key, Val: o.Value()}}
	case "del":
		return []W{{Key: o.Key, Del: true}}
	case "txn", "batch":
		var ws []W
		for _, s := range o.Sub {
			if s.K == "put" || s.K == "del" {
				ws = append(ws, s.Writes()...)
			}
		}
		return ws
	}
	return nil
}

// KeySpace is a generated key alphabet.
type KeySpace struct{ Keys [][]byte }

// GenKeySpace draws 2..n keys of mixed shapes: short ascii, shared prefixes,
// binary (0x00, 0xff), 1-byte, and occasionally long keys.
func GenKeySpace(r *Rand, n int) KeySpace {
	cnt := r.Range(2, n)
	seen := map[string]bool{}
	var ks [][]byte
	prefix := []byte(PickOf(r, "k", "key/", "user:profile:", "a\x00", "\xff\xfe"))
	for len(ks) < cnt {
		var k []byte
		switch r.Pick(5, 3, 2, 1, 1) {
		case 0:
			k = []byte(fmt.Sprintf("k%02d", r.Intn(40)))
		case 1:
			k = append(append([]byte(nil), prefix...), []byte(fmt.Sprintf("%03d", r.Intn(200)))...)
		case 2:
			k = make([]byte, r.Range(1, 6))
			for i := range k {
				k[i] = PickOf(r, byte(0), 1, 'a', 'b', 0x7f, 0x80, 0xfe, 0xff)
			}
		case 3:
			k = []byte{byte(r.Intn(256))}
		case 4:
			k = make([]byte, PickOf(r, 100, 1000, 4096))
			for i := range k {
				k[i] = byte('a' + i%7)
			}
			binary.LittleEndian.PutUint32(k[len(k)-4:], uint32(r.Intn(4)))
		}
		if !seen[string(k)] {
			seen[string(k)] = true
			ks = append(ks, k)
		}
	}
	return KeySpace{ks}
}

func (ks KeySpace) Pick(r *Rand) []byte { return ks.Keys[r.Intn(len(ks.Keys))] }

// ValLen draws a value length class: empty, small, medium, around the 32 KB
// fragment edge, beyond the 64 KB log buffer.
func ValLen(r *Rand, big bool) int {
	if big {
		switch r.Pick(3, 30, 10, 3, 2) {
		case 0:
			return 0
		case 1:
			return r.Range(1, 40)
		case 2:
			return r.Range(100, 3000)
		case 3:
			return 32768 - 40 + r.Intn(60)
		default:
			return PickOf(r, 65536-20, 65536+100, 70000, 100000)
		}
	}
	switch r.Pick(3, 30, 8) {
	case 0:
		return 0
	case 1:
		return r.Range(1, 40)
	default:
		return r.Range(100, 1200)
	}
}

// ShrinkOps proposes smaller programmes: drop chunks, then single ops, then
// simplify individual ops.
func ShrinkOps(ops []Op) [][]Op {
	var out [][]Op
	n := len(ops)
	for chunk := n / 2; chunk >= 1; chunk /= 2 {
		for i := 0; i+chunk <= n; i += chunk {
			c := make([]Op, 0, n-chunk)
			c = append(c, ops[:i]...)
			c = append(c, ops[i+chunk:]...)
			out = append(out, c)
		}
		if chunk == 1 {
			break
		}
	}
	for i, o := range ops {
		repl := func(no Op) {
			c := append([]Op(nil), ops...)
			c[i] = no
			out = append(out, c)
		}
		switch o.K {
		case "put":
			if o.Len > 8 {
				no := o
				no.Len = 8
				repl(no)
			}
		case "txn", "batch":
			for j := range o.Sub {
				no := o
				no.Sub = append(append([]Op(nil), o.Sub[:j]...), o.Sub[j+1:]...)
				if len(no.Sub) > 0 {
					repl(no)
				}
			}
			for j, s := range o.Sub {
				if s.K == "put" && s.Len > 8 {
					no := o
					no.Sub = append([]Op(nil), o.Sub...)
					no.Sub[j].Len = 8
					repl(no)
				}
			}
		case "sleep":
			if o.D > 1 {
				no := o
				no.D = 1
				repl(no)
			}
		}
	}
	return out
}

// ProgOpts steers GenProgram.
type ProgOpts struct {
	MinOps, MaxOps int
	Keys           KeySpace
	Big            bool // allow fragment-edge / >64KB values
	WFlush         int  // weights
	WCompact       int
	WReopen        int
	WSleep         int
	WTxn           int
	WBatch         int
	WGet           int
	WNilPut        int
}

// GenProgram draws a single-client programme. Tags are unique per put.
func GenProgram(r *Rand, o ProgOpts) []Op {
	n := r.Range(o.MinOps, o.MaxOps)
	var tag uint32
	nextTag := func() uint32 { tag++; return tag }
	put := func() Op {
		op := Op{K: "put", Key: o.Keys.Pick(r), Tag: nextTag(), Len: ValLen(r, o.Big)}
		if o.WNilPut > 0 && r.Intn(100) < o.WNilPut {
			op.Nil, op.Len = true, 0
		}
		return op
	}
	// entries of a transaction/batch are written unfragmented: keep them below one record
	small := func(op Op) Op {
		if op.Len+len(op.Key) > 32000 {
			op.Len = 32000 - len(op.Key)
		}
		return op
	}
	var ops []Op
	for len(ops) < n {
		switch r.Pick(40, 12, o.WGet, o.WTxn, o.WBatch, o.WFlush, o.WCompact, o.WReopen, o.WSleep) {
		case 0:
			ops = append(ops, put())
		case 1:
			ops = append(ops, Op{K: "del", Key: o.Keys.Pick(r)})
		case 2:
			ops = append(ops, Op{K: "get", Key: o.Keys.Pick(r)})
		case 3:
			t := Op{K: "txn", Commit: r.Bool(0.8)}
			m := r.Range(1, 6)
			if o.Big && r.Bool(0.03) {
				// a commit of a thousand and more operations
				for j, k := 0, r.Range(1030, 2600); j < k; j++ {
					t.Sub = append(t.Sub, Op{K: "put", Key: []byte(fmt.Sprintf("many/%04d", j)), Tag: nextTag(), Len: r.Range(0, 6)})
				}
				if r.Bool(0.3) {
					// ... one of whose last entries is too large for a log record: the
					// commit fails as a whole, whatever was handed over before it
					t.Sub[len(t.Sub)-1-r.Intn(25)].Len = r.Range(33000, 40000)
				}
				t.Commit = true
				m = 0
			}
			if o.Big && r.Bool(0.1) {
				// a commit larger than the log's 64 KB write buffer
				for j, k := 0, r.Range(3, 5); j < k; j++ {
					p := put()
					p.Len = r.Range(20000, 31000)
					t.Sub = append(t.Sub, small(p))
				}
				t.Commit = true
				m = r.Range(0, 2)
			}
			for j := 0; j < m; j++ {
				switch r.Pick(12, 4, 6, 1) {
				case 0:
					t.Sub = append(t.Sub, small(put()))
				case 1:
					t.Sub = append(t.Sub, Op{K: "del", Key: o.Keys.Pick(r)})
				case 2:
					t.Sub = append(t.Sub, Op{K: "get", Key: o.Keys.Pick(r)})
				default:
					// the transaction looks at its own state through an iterator
					// (what it yields is C05's subject) and goes on
					t.Sub = append(t.Sub, Op{K: "scan"})
				}
			}
			ops = append(ops, t)
		case 4:
			b := Op{K: "batch"}
			m := r.Range(1, 5)
			if r.Bool(0.04) {
				m = 0 // an empty batch is a legal call and must be a no-op
			}
			used := map[string]bool{}
			for j := 0; j < m; j++ {
				k := o.Keys.Pick(r)
				if used[string(k)] {
					continue // ApplyBatch gives no intra-batch ordering promise for repeated keys
				}
				used[string(k)] = true
				if r.Bool(0.75) {
					p := small(put())
					p.Key = k
					b.Sub = append(b.Sub, p)
				} else {
					b.Sub = append(b.Sub, Op{K: "del", Key: k})
				}
			}
			ops = append(ops, b)
		case 5:
			ops = append(ops, Op{K: "flush"})
		case 6:
			if r.Bool(0.7) {
				ops = append(ops, Op{K: "compact"})
			} else {
				a, b := o.Keys.Pick(r), o.Keys.Pick(r)
				if string(a) > string(b) {
					a, b = b, a
				}
				ops = append(ops, Op{K: "crange", Key: a, End: b})
			}
		case 7:
			ops = append(ops, Op{K: "reopen"})
		case 8:
			ops = append(ops, Op{K: "sleep", D: int64(PickOf(r, 1, 20, 1500, 11000, 31000))})
		}
	}
	return ops
}

// ClassifyRead names how an observed read differs from the model.
func ClassifyRead(m *Model, key, got []byte, found bool) string {
	want, wfound := m.Get(key)
	if found == wfound && (!found || string(got) == string(want)) {
		return ""
	}
	if !found {
		return "lost"
	}
	// was this value ever written to this key?
	older := false
	for i := 1; i <= m.Len(); i++ {
		for _, w := range m.Step(i) {
			if !w.Del && string(w.Key) == string(key) && string(w.Val) == string(got) {
				older = true
			}
		}
	}
	if !older {
		if len(got) == 0 {
			return "empty-for-value"
		}
		return "garbage"
	}
	if !wfound {
		return "resurrected"
	}
	return "stale"
}
