package kit

import (
	"encoding/json"
	"fmt"
	"hash/fnv"
	"os"
	"path/filepath"
	"sort"
	"strconv"
	"strings"
	"testing"
	"time"

	"github.com/KevoDB/kevo/zsim/simos"
	"github.com/KevoDB/kevo/zsim/simrt"
)

// Verbose makes simulated runs keep a readable schedule trace (no effect on choices).
var Verbose bool

// Result of executing one case.
type Result struct {
	V            *Violation
	Nontrivial   bool
	Inconclusive bool
	Truncated    bool
	Evals        int // sub-evaluations inside the case (e.g. enumerated crash points); 0 counts as 1
	SchedHash    uint64
	Steps        int64
	VirtualNs    int64
	Faults       map[string]int64
	Probes       map[string]int64
	Trace        []string
	Note         string
	LeakedAt     []string
}

func NewResult() *Result { return &Result{Faults: map[string]int64{}, Probes: map[string]int64{}} }

func (r *Result) Probe(name string) { r.Probes[name]++ }
func (r *Result) Fault(name string, n int64) {
	if n != 0 {
		r.Faults[name] += n
	}
}

// Absorb folds the scheduler outcome into the result and turns panics,
// deadlocks and hangs into violations (kind "panic", "deadlock", "hang").
func (r *Result) Absorb(out simrt.Outcome) {
	r.SchedHash ^= out.TraceHash
	r.Steps += out.Steps
	r.VirtualNs += out.VirtualNs
	if out.Truncated {
		r.Truncated = true
	}
	if out.Leaked > 0 {
		r.Probes["leaked_goroutines"] += int64(out.Leaked)
		r.LeakedAt = out.LeakedAt
	}
	if r.V != nil {
		return
	}
	d := KeptReadChanged()
	kept = kept[:0]
	if d != "" && out.Panic == "" {
		r.V = &Violation{Kind: "returned-value-changed", Signature: "returned-value-changed-later", Detail: d}
		return
	}
	switch {
	case out.Panic != "":
		r.V = &Violation{Kind: "panic", Signature: "panic:" + panicSite(out.Panic), Detail: out.Panic}
	case out.Deadlock:
		r.V = &Violation{Kind: "deadlock", Signature: "deadlock", Detail: out.Detail}
	case out.Hang:
		r.V = &Violation{Kind: "hang", Signature: "hang", Detail: out.Detail}
	case out.Livelock:
		r.V = &Violation{Kind: "livelock", Signature: "livelock", Detail: out.Detail}
	}
}

func panicSite(p string) string {
	// first kevo frame below the panic
	for _, line := range strings.Split(p, "\n") {
		line = strings.TrimSpace(line)
		if strings.HasPrefix(line, "github.com/KevoDB/kevo/pkg/") {
			if i := strings.Index(line, "("); i > 0 {
				line = line[:i]
			}
			return strings.TrimPrefix(line, "github.com/KevoDB/kevo/")
		}
	}
	first := strings.SplitN(p, "\n", 2)[0]
	if len(first) > 80 {
		first = first[:80]
	}
	return first
}

// Spec describes a check to the driver.
type Spec[C any] struct {
	ID     string
	Gen    func(r *Rand, tier string) C
	Run    func(t *testing.T, c C) *Result
	Shrink func(c C) []C
	// Strip returns the case without its schedule part (for programme hashing); optional.
	Strip func(c C) any
	// Rule describes generation and the non-triviality rule (evidence).
	Rule string
}

type knownFile struct {
	Findings []struct {
		Property  string `json:"property"`
		Signature string `json:"signature"`
		What      string `json:"what"`
	} `json:"findings"`
}

type foundViolation struct {
	Signature string `json:"signature"`
	Kind      string `json:"kind"`
	Detail    string `json:"detail"`
	Replay    string `json:"replay"`
	Seed      uint64 `json:"seed"`
	Known     bool   `json:"known"`
	What      string `json:"what,omitempty"`
	Count     int    `json:"count"`
}

type workerOut struct {
	Property     string            `json:"property"`
	Worker       int               `json:"worker"`
	Cases        int               `json:"cases"`
	Evals        int               `json:"evals"`
	Nontrivial   int               `json:"nontrivial"`
	Truncated    int               `json:"truncated"`
	Inconclusive int               `json:"inconclusive"`
	Steps        int64             `json:"steps"`
	SimTimeNs    int64             `json:"sim_time_ns"`
	WallS        float64           `json:"wall_s"`
	Faults       map[string]int64  `json:"faults"`
	Probes       map[string]int64  `json:"probes"`
	Samples      []json.RawMessage `json:"samples"`
	Violations   []*foundViolation `json:"violations"`
	DetChecked   int               `json:"determinism_checked"`
	DetMismatch  []string          `json:"determinism_mismatch"`
	HashFile     string            `json:"hash_file"`
	Rule         string            `json:"rule"`
	Error        string            `json:"error,omitempty"`
}

type replayFile struct {
	Format    int             `json:"format"`
	Property  string          `json:"property"`
	Seed      uint64          `json:"seed"`
	Case      json.RawMessage `json:"case"`
	Violation *Violation      `json:"violation"`
	SchedHash string          `json:"sched_hash"`
	Trace     []string        `json:"trace,omitempty"`
	Minimised map[string]any  `json:"minimised,omitempty"`
	Tree      string          `json:"tree,omitempty"`
	Go        string          `json:"go,omitempty"`
}

func envInt(name string, def int) int {
	if v := os.Getenv(name); v != "" {
		if n, err := strconv.Atoi(v); err == nil {
			return n
		}
	}
	return def
}

func hashJSON(v any) uint64 {
	b, _ := json.Marshal(v)
	h := fnv.New64a()
	h.Write(b)
	return h.Sum64()
}

func sig8(s string) string {
	h := fnv.New32a()
	h.Write([]byte(s))
	return fmt.Sprintf("%08x", h.Sum32())
}

// Main is the body of every check's test function.
func Main[C any](t *testing.T, spec Spec[C]) {
	if os.Getenv("KEVOSIM_CHECK") != spec.ID {
		t.Skip("not selected")
	}
	if rp := os.Getenv("KEVOSIM_REPLAY"); rp != "" {
		replayMain(t, spec, rp)
		return
	}
	tier := os.Getenv("KEVOSIM_TIER")
	if tier == "" {
		tier = "quick"
	}
	if os1 := os.Getenv("KEVOSIM_ONESEED"); os1 != "" {
		seed, _ := strconv.ParseUint(os1, 10, 64)
		c := spec.Gen(NewRand(seed), tier)
		cb, _ := json.Marshal(c)
		fmt.Fprintf(os.Stderr, "case: %s\n", clip(string(cb), 3000))
		for i := 0; i < envInt("KEVOSIM_REPEAT", 3); i++ {
			Verbose = os.Getenv("KEVOSIM_VERBOSE") != ""
			TraceLimit = envInt("KEVOSIM_TRACELIMIT", 0)
			r := spec.Run(t, c)
			v := "none"
			if r.V != nil {
				v = r.V.Signature + ": " + clip(r.V.Detail, 1500)
			}
			fmt.Fprintf(os.Stderr, "run %d: hash=%x steps=%d vt=%v violation=%s\n", i, r.SchedHash, r.Steps, time.Duration(r.VirtualNs), v)
			if len(r.LeakedAt) > 0 {
				fmt.Fprintf(os.Stderr, "  leaked: %s\n", strings.Join(r.LeakedAt, " | "))
			}
			if Verbose {
				os.WriteFile(fmt.Sprintf("/tmp/kevosim-trace-%d.txt", i), []byte(strings.Join(r.Trace, "\n")), 0644)
			}
		}
		return
	}
	base, _ := strconv.ParseUint(os.Getenv("KEVOSIM_SEED"), 10, 64)
	worker := envInt("KEVOSIM_WORKER", 0)
	nworkers := envInt("KEVOSIM_NWORKERS", 1)
	budget := time.Duration(envInt("KEVOSIM_BUDGET_S", 20)) * time.Second
	maxCases := envInt("KEVOSIM_MAXCASES", 1<<30)
	outPath := os.Getenv("KEVOSIM_OUT")
	replayDir := os.Getenv("KEVOSIM_REPLAYDIR")
	if replayDir == "" {
		replayDir = "/verif/replays"
	}
	known := map[string]string{}
	if kp := os.Getenv("KEVOSIM_KNOWN"); kp != "" {
		if b, err := os.ReadFile(kp); err == nil {
			var kf knownFile
			if json.Unmarshal(b, &kf) == nil {
				for _, f := range kf.Findings {
					if f.Property == spec.ID {
						known[f.Signature] = f.What
					}
				}
			}
		}
	}

	wo := &workerOut{Property: spec.ID, Worker: worker, Faults: map[string]int64{}, Probes: map[string]int64{}, Rule: spec.Rule}
	seen := map[uint64]bool{}
	bySig := map[string]*foundViolation{}
	start := time.Now()
	newSigs := 0
	defer func() {
		wo.WallS = time.Since(start).Seconds()
		if outPath != "" {
			hf := outPath + ".hashes"
			var sb strings.Builder
			for h := range seen {
				fmt.Fprintf(&sb, "%016x\n", h)
			}
			os.WriteFile(hf, []byte(sb.String()), 0644)
			wo.HashFile = hf
			b, _ := json.MarshalIndent(wo, "", " ")
			os.WriteFile(outPath, b, 0644)
		}
	}()

	for i := worker; ; i += nworkers {
		if wo.Cases >= maxCases || time.Since(start) > budget || newSigs >= 3 {
			break
		}
		seed := SeedFor(base, spec.ID, i)
		c := spec.Gen(NewRand(seed), tier)
		if wo.Cases == 0 {
			// Warm-up: the first simulated run of a process pays for lazily
			// initialised library state (one-off runtime random draws), which
			// shifts its map-iteration seeds; it is executed once and discarded.
			spec.Run(t, c)
		}
		if os.Getenv("KEVOSIM_TRACE_SEEDS") != "" {
			cb, _ := json.Marshal(c)
			os.WriteFile(os.Getenv("KEVOSIM_TRACE_SEEDS"), cb, 0644)
		}
		res := spec.Run(t, c)
		wo.Cases++
		ev := res.Evals
		if ev == 0 {
			ev = 1
		}
		wo.Evals += ev
		wo.Steps += res.Steps
		wo.SimTimeNs += res.VirtualNs
		if res.Truncated {
			wo.Truncated++
		}
		if res.Inconclusive {
			wo.Inconclusive++
		}
		for k, v := range res.Faults {
			wo.Faults[k] += v
		}
		for k, v := range res.Probes {
			wo.Probes[k] += v
		}
		var stripped any = c
		if spec.Strip != nil {
			stripped = spec.Strip(c)
		}
		if res.Nontrivial {
			h := mix(hashJSON(stripped) ^ mix(res.SchedHash))
			if !seen[h] {
				seen[h] = true
				wo.Nontrivial++
			}
		}
		if len(wo.Samples) < 2 && (res.Nontrivial || wo.Cases > 20) {
			b, _ := json.Marshal(map[string]any{"seed": seed, "case": c, "note": res.Note})
			if len(b) < 6000 {
				wo.Samples = append(wo.Samples, b)
			}
		}
		// determinism self-check on the first cases of each worker
		if wo.DetChecked < 3 && res.V == nil {
			r2 := spec.Run(t, c)
			wo.DetChecked++
			if r2.SchedHash != res.SchedHash || (r2.V != nil) != (res.V != nil) {
				r3 := spec.Run(t, c)
				if r3.SchedHash != r2.SchedHash || (r3.V != nil) != (r2.V != nil) {
					wo.DetMismatch = append(wo.DetMismatch, fmt.Sprintf("seed %d: %x vs %x vs %x", seed, res.SchedHash, r2.SchedHash, r3.SchedHash))
				} else {
					wo.Probes["first_execution_polluted_by_lazy_init"]++
				}
			}
		}
		if res.V == nil {
			continue
		}
		sig := res.V.Signature
		if fv := bySig[sig]; fv != nil {
			fv.Count++
			continue
		}
		fv := &foundViolation{Signature: sig, Kind: res.V.Kind, Detail: clip(res.V.Detail, 4000), Seed: seed, Count: 1}
		if what, ok := known[sig]; ok {
			fv.Known, fv.What = true, what
			bySig[sig] = fv
			wo.Violations = append(wo.Violations, fv)
			continue
		}
		// confirm (determinism), minimise, write replay
		flaky := res.V.Kind == "data-race" // the detector's bounded shadow history makes a report a may-, not a must-event
		r2 := res
		if !flaky {
			r2 = spec.Run(t, c)
		}
		if r2.V == nil || r2.V.Signature != sig {
			// The first execution may have hit a code path for the first time in
			// this process (lazy initialisation draws). Two further executions
			// that agree with each other are authoritative.
			r3 := spec.Run(t, c)
			same := r2.SchedHash == r3.SchedHash && (r2.V == nil) == (r3.V == nil)
			if !same {
				wo.DetMismatch = append(wo.DetMismatch, fmt.Sprintf("seed %d: three executions disagree (violation %q)", seed, sig))
				continue
			}
			wo.Probes["first_execution_polluted_by_lazy_init"]++
			if r3.V == nil {
				continue
			}
			sig = r3.V.Signature
			res = r3
			if fv := bySig[sig]; fv != nil {
				fv.Count++
				continue
			}
			fv = &foundViolation{Signature: sig, Kind: res.V.Kind, Detail: clip(res.V.Detail, 4000), Seed: seed, Count: 1}
			if what, ok := known[sig]; ok {
				fv.Known, fv.What = true, what
				bySig[sig] = fv
				wo.Violations = append(wo.Violations, fv)
				continue
			}
		}
		minC, tried, fromN, toN := minimise(t, spec, c, sig, 40*time.Second)
		Verbose = true
		rf := spec.Run(t, minC)
		for i := 0; flaky && i < 4 && (rf.V == nil || rf.V.Signature != sig); i++ {
			rf = spec.Run(t, minC)
		}
		Verbose = false
		if rf.V == nil || rf.V.Signature != sig {
			minC = c
			Verbose = true
			rf = spec.Run(t, c)
			for i := 0; flaky && i < 4 && (rf.V == nil || rf.V.Signature != sig); i++ {
				rf = spec.Run(t, c)
			}
			Verbose = false
			if flaky && (rf.V == nil || rf.V.Signature != sig) {
				rf = res // keep the report of the first execution
			}
		}
		cb, _ := json.Marshal(minC)
		rp := replayFile{Format: 1, Property: spec.ID, Seed: seed, Case: cb, Violation: rf.V, SchedHash: fmt.Sprintf("%x", rf.SchedHash),
			Trace: tail(rf.Trace, 400), Minimised: map[string]any{"candidates_tried": tried, "from_size": fromN, "to_size": toN},
			Tree: os.Getenv("KEVOSIM_TREE"), Go: "go1.26.8"}
		os.MkdirAll(replayDir, 0755)
		path := filepath.Join(replayDir, fmt.Sprintf("%s-%d-%s.json", spec.ID, seed, sig8(sig)))
		b, _ := json.MarshalIndent(rp, "", " ")
		os.WriteFile(path, b, 0644)
		fv.Replay = path
		if rf.V != nil {
			fv.Detail = clip(rf.V.Detail, 4000)
		}
		bySig[sig] = fv
		wo.Violations = append(wo.Violations, fv)
		newSigs++
	}
}

func clip(s string, n int) string {
	if len(s) > n {
		return s[:n] + "…"
	}
	return s
}

func tail(s []string, n int) []string {
	if len(s) > n {
		return s[len(s)-n:]
	}
	return s
}

func minimise[C any](t *testing.T, spec Spec[C], c C, sig string, limit time.Duration) (C, int, int, int) {
	size := func(x C) int { b, _ := json.Marshal(x); return len(b) }
	from := size(c)
	tried := 0
	if spec.Shrink == nil {
		return c, 0, from, from
	}
	start := time.Now()
	cur := c
	for round := 0; round < 200; round++ {
		progress := false
		for _, cand := range spec.Shrink(cur) {
			if time.Since(start) > limit || tried > 1500 {
				return cur, tried, from, size(cur)
			}
			tried++
			r := spec.Run(t, cand)
			if r.V != nil && r.V.Signature == sig {
				cur = cand
				progress = true
				break
			}
		}
		if !progress {
			break
		}
	}
	return cur, tried, from, size(cur)
}

func replayMain[C any](t *testing.T, spec Spec[C], path string) {
	b, err := os.ReadFile(path)
	if err != nil {
		fmt.Fprintf(os.Stderr, "replay: %v\n", err)
		os.Exit(2)
	}
	var rf replayFile
	if err := json.Unmarshal(b, &rf); err != nil {
		fmt.Fprintf(os.Stderr, "replay: %v\n", err)
		os.Exit(2)
	}
	var c C
	if err := json.Unmarshal(rf.Case, &c); err != nil {
		fmt.Fprintf(os.Stderr, "replay: case: %v\n", err)
		os.Exit(2)
	}
	spec.Run(t, c) // warm-up, see Main
	TraceLimit = envInt("KEVOSIM_TRACELIMIT", 4000)
	Verbose = true
	simos.DescribeHex = true
	res := spec.Run(t, c)
	if rf.Violation != nil && rf.Violation.Kind == "data-race" {
		// the race detector keeps a bounded access history: give it a few executions
		for i := 0; i < 8 && (res.V == nil || res.V.Signature != rf.Violation.Signature); i++ {
			res = spec.Run(t, c)
		}
	}
	out := map[string]any{"property": spec.ID, "path": path, "expected": rf.Violation, "got": res.V,
		"sched_hash_expected": rf.SchedHash, "sched_hash_got": fmt.Sprintf("%x", res.SchedHash), "trace": tail(res.Trace, 400)}
	if tf := os.Getenv("KEVOSIM_TRACEFILE"); tf != "" {
		os.WriteFile(tf, []byte(strings.Join(res.Trace, "\n")), 0644)
	}
	ob, _ := json.MarshalIndent(out, "", " ")
	if op := os.Getenv("KEVOSIM_OUT"); op != "" {
		os.WriteFile(op, ob, 0644)
	}
}

// SortedKeys is a small helper for deterministic map iteration in checks.
func SortedKeys[V any](m map[string]V) []string {
	ks := make([]string, 0, len(m))
	for k := range m {
		ks = append(ks, k)
	}
	sort.Strings(ks)
	return ks
}
