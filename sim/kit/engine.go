package kit

import (
	"bytes"
	"errors"
	"fmt"
	"os"
	"time"

	"github.com/KevoDB/kevo/pkg/common/log"
	"github.com/KevoDB/kevo/pkg/config"
	"github.com/KevoDB/kevo/pkg/engine"
	"github.com/KevoDB/kevo/pkg/wal"
	"github.com/KevoDB/kevo/zsim/simos"
	"github.com/KevoDB/kevo/zsim/simrt"
	"github.com/KevoDB/kevo/zsim/simsync"
)

// Knobs are the configuration values a run varies (swarm).
type Knobs struct {
	MemTableSize           int64 `json:"memtable_size"`
	MaxMemTables           int   `json:"max_memtables"`
	SyncMode               int   `json:"sync_mode"` // 0 none, 1 batch, 2 immediate
	SyncBytes              int64 `json:"sync_bytes,omitempty"`
	CompactionInterval     int64 `json:"compaction_interval,omitempty"`
	MaxLevelWithTombstones int   `json:"max_level_with_tombstones"`
	BlockSize              int   `json:"block_size,omitempty"`
	TxCleanupInterval      int64 `json:"tx_cleanup_interval,omitempty"`
	IdleTxTimeout          int64 `json:"idle_tx_timeout,omitempty"`
	ReadOnlyTxTTL          int64 `json:"ro_tx_ttl,omitempty"`
	ReadWriteTxTTL         int64 `json:"rw_tx_ttl,omitempty"`
	CompactionLevels       int   `json:"compaction_levels,omitempty"`
	// not a kevo setting: the node's disk takes up to DiskUs microseconds of
	// virtual time per state-changing operation (0: none), so that calls have a
	// duration and overlap with timers and with each other
	DiskUs int `json:"disk_us,omitempty"`
}

func GenKnobs(r *Rand) Knobs {
	k := Knobs{
		MemTableSize:           PickOf(r, int64(256), 512, 1024, 4096, 16384, 65536, 32<<20),
		MaxMemTables:           r.Range(1, 4),
		SyncMode:               r.Pick(1, 1, 3),
		SyncBytes:              PickOf(r, int64(64), 1024, 65536, 1<<20),
		CompactionInterval:     PickOf(r, int64(1), 2, 5, 30),
		MaxLevelWithTombstones: r.Range(0, 2),
	}
	return k
}

func (k Knobs) Apply(c *config.Config) {
	if k.MemTableSize > 0 {
		c.MemTableSize = k.MemTableSize
	}
	if k.MaxMemTables > 0 {
		c.MaxMemTables = k.MaxMemTables
	}
	c.WALSyncMode = config.SyncMode(k.SyncMode)
	if k.SyncBytes > 0 {
		c.WALSyncBytes = k.SyncBytes
	}
	if k.CompactionInterval > 0 {
		c.CompactionInterval = k.CompactionInterval
	}
	c.MaxLevelWithTombstones = k.MaxLevelWithTombstones
	if k.BlockSize > 0 {
		c.SSTableBlockSize = k.BlockSize
	}
	if k.TxCleanupInterval > 0 {
		c.TxCleanupInterval = k.TxCleanupInterval
	}
	if k.IdleTxTimeout > 0 {
		c.IdleTxTimeout = k.IdleTxTimeout
	}
	if k.ReadOnlyTxTTL > 0 {
		c.ReadOnlyTxTTL = k.ReadOnlyTxTTL
	}
	if k.ReadWriteTxTTL > 0 {
		c.ReadWriteTxTTL = k.ReadWriteTxTTL
	}
	if k.CompactionLevels > 0 {
		c.CompactionLevels = k.CompactionLevels
	}
}

// NewFS installs a fresh simulated file system for the run.
func NewFS() *simos.FS {
	fs := simos.NewFS()
	simos.Install(fs)
	wal.DisableRecoveryLogs = true
	// the replication package logs several lines per replicated entry at INFO
	log.SetLevel(log.LevelFatal)
	kept = kept[:0]
	return fs
}

// What Get returned belongs to the caller, who reads it whenever it likes: the
// first values a run reads are kept (the returned slice itself and a copy made
// at that moment) and compared again when the run is over (Result.Absorb).
type keptRead struct {
	key       string
	got, then []byte
}

var kept []keptRead

func keepRead(k, v []byte) {
	if len(kept) < 256 && len(v) > 0 {
		kept = append(kept, keptRead{string(k), v, append([]byte(nil), v...)})
	}
}

// KeptReadChanged reports the first kept value that no longer holds the bytes
// it held when Get returned it.
func KeptReadChanged() string {
	for _, r := range kept {
		if !bytes.Equal(r.got, r.then) {
			return fmt.Sprintf("the value Get(%s) returned held %s when the call returned and holds %s at the end of the run", Q([]byte(r.key)), Q(r.then), Q(r.got))
		}
	}
	return ""
}

// DBDir is where a node keeps its database.
func DBDir(node string) string { return "/" + node + "/db" }

// OpenEngine opens (creating with the knobs if there is no manifest yet) the
// node's database. Must run in a task tagged with the node.
func OpenEngine(node string, k Knobs) (*engine.EngineFacade, error) {
	dir := DBDir(node)
	if k.DiskUs > 0 && simos.Current() != nil {
		simos.Current().Node(node).Latency = time.Duration(k.DiskUs) * time.Microsecond
	}
	if _, err := simos.Stat(dir + "/" + config.DefaultManifestFileName); err != nil {
		if !simos.IsNotExist(err) {
			return nil, err
		}
		cfg := config.NewDefaultConfig(dir)
		k.Apply(cfg)
		if err := cfg.SaveManifest(dir); err != nil {
			return nil, fmt.Errorf("save manifest: %w", err)
		}
	}
	return engine.NewEngineFacade(dir)
}

// TagNode tags the running task with the node's current incarnation.
func TagNode(fs *simos.FS, node string) {
	simrt.SetTag(node, fs.Node(node).Gen)
}

// OnNode runs f in a new task tagged with the node's current incarnation and
// waits until it returned or died with its incarnation.
func OnNode(fs *simos.FS, node, name string, f func()) (died bool) {
	var wg simsync.WaitGroup
	done := false
	wg.Add(1)
	gen := fs.Node(node).Gen
	simrt.GoNamed(name, func() {
		defer wg.Done()
		simrt.SetTag(node, gen)
		f()
		done = true
	})
	wg.Wait()
	return !done
}

// ---------------------------------------------------------------- observation

// Observed is a full read of an engine: a scan and point gets of every key of interest.
type Observed struct {
	Scan     map[string][]byte
	ScanKeys [][]byte // in iteration order, tombstones skipped
	Gets     map[string][]byte
}

// ScanAll iterates the whole engine, skipping deletion markers as the
// service's scan does. It reports order/duplicate problems as a string.
func ScanAll(e *engine.EngineFacade) (keys [][]byte, vals [][]byte, problem string, err error) {
	it, err := e.GetIterator()
	if err != nil {
		return nil, nil, "", err
	}
	var prev []byte
	n := 0
	for it.SeekToFirst(); it.Valid(); it.Next() {
		n++
		if n > 1_000_000 {
			return keys, vals, "scan does not terminate (1e6 entries)", nil
		}
		k := append([]byte(nil), it.Key()...)
		if prev != nil && bytes.Compare(prev, k) >= 0 && problem == "" {
			problem = fmt.Sprintf("scan not strictly ascending: %s then %s", Q(prev), Q(k))
		}
		prev = k
		if it.IsTombstone() {
			continue
		}
		v := it.Value()
		if v == nil {
			v = []byte{}
		}
		keys = append(keys, k)
		vals = append(vals, append([]byte(nil), v...))
	}
	return keys, vals, problem, nil
}

// Observe reads everything: a full scan plus a Get of every key in keys.
func Observe(e *engine.EngineFacade, keys [][]byte) (*Observed, string, error) {
	o := &Observed{Scan: map[string][]byte{}, Gets: map[string][]byte{}}
	ks, vs, problem, err := ScanAll(e)
	if err != nil {
		return nil, "", fmt.Errorf("scan: %w", err)
	}
	o.ScanKeys = ks
	for i, k := range ks {
		if _, dup := o.Scan[string(k)]; dup && problem == "" {
			problem = fmt.Sprintf("scan yields key %s twice", Q(k))
		}
		o.Scan[string(k)] = vs[i]
	}
	for _, k := range keys {
		v, err := e.Get(k)
		if err != nil {
			if IsNotFound(err) {
				continue
			}
			return nil, "", fmt.Errorf("get %s: %w", Q(k), err)
		}
		if v == nil {
			v = []byte{}
		}
		o.Gets[string(k)] = v
	}
	return o, problem, nil
}

// Violation is what a check reports.
type Violation struct {
	Kind      string `json:"kind"`      // oracle that fired
	Signature string `json:"signature"` // stable class used for known-finding matching
	Detail    string `json:"detail"`
}

func (v *Violation) String() string { return v.Kind + " [" + v.Signature + "]: " + v.Detail }

// ---------------------------------------------------------------- op execution

// TxErr wraps an error of a transaction step.
type ExecResult struct {
	Err      error
	Val      []byte
	Found    bool
	SubFound []bool
	SubVals  [][]byte
}

// ExecWrite applies a write-type op (put/del/batch/txn) to the engine.
// For a txn, reads inside are returned in SubVals/SubFound (index-aligned with Sub).
func ExecWrite(e *engine.EngineFacade, o Op) ExecResult {
	switch o.K {
	case "put":
		// the caller's buffers are its own again once the call has returned:
		// it overwrites them (what is stored must be the bytes at call time)
		kb, vb := SharedBuffer(o.Key, o.Value())
		err := e.Put(kb, vb)
		scribbleBytes(kb[:cap(kb)])
		return ExecResult{Err: err}
	case "del":
		kb := append([]byte{}, o.Key...)
		err := e.Delete(kb)
		scribbleBytes(kb)
		return ExecResult{Err: err}
	case "batch":
		var ents []*wal.Entry
		for _, s := range o.Sub {
			switch s.K {
			case "put":
				kb, vb := SharedBuffer(s.Key, s.Value())
				ents = append(ents, &wal.Entry{Type: wal.OpTypePut, Key: kb, Value: vb})
			case "del":
				ents = append(ents, &wal.Entry{Type: wal.OpTypeDelete, Key: append([]byte{}, s.Key...)})
			}
		}
		err := e.ApplyBatch(ents)
		for _, en := range ents {
			scribbleBytes(en.Key[:cap(en.Key)], en.Value)
		}
		return ExecResult{Err: err}
	case "txn":
		res := ExecResult{SubFound: make([]bool, len(o.Sub)), SubVals: make([][]byte, len(o.Sub))}
		tx, err := e.BeginTransaction(o.RO)
		if err != nil {
			res.Err = fmt.Errorf("begin: %w", err)
			return res
		}
		scribble := func(bufs ...[]byte) {
			for _, b := range bufs {
				for i := range b {
					b[i] ^= 0x5a
				}
			}
		}
		for i, s := range o.Sub {
			switch s.K {
			case "put":
				kb, vb := s.Key, s.Value()
				if o.Scribble {
					kb, vb = append([]byte{}, kb...), append([]byte{}, vb...)
				}
				err := tx.Put(kb, vb)
				if o.Scribble {
					scribble(kb, vb) // the caller reuses its buffers
				}
				if err != nil {
					tx.Rollback()
					res.Err = fmt.Errorf("tx put: %w", err)
					return res
				}
			case "del":
				kb := s.Key
				if o.Scribble {
					kb = append([]byte{}, kb...)
				}
				err := tx.Delete(kb)
				if o.Scribble {
					scribble(kb)
				}
				if err != nil {
					tx.Rollback()
					res.Err = fmt.Errorf("tx delete: %w", err)
					return res
				}
			case "scan":
				it := tx.NewIterator()
				n := 0
				for it.SeekToFirst(); it.Valid() && n < 100000; it.Next() {
					n++
				}
			case "get":
				v, err := tx.Get(s.Key)
				if err == nil {
					if v == nil {
						v = []byte{}
					}
					res.SubFound[i], res.SubVals[i] = true, v
				} else if !IsNotFound(err) {
					tx.Rollback()
					res.Err = fmt.Errorf("tx get: %w", err)
					return res
				}
			}
		}
		if o.Abandon {
			return res
		}
		if o.Commit {
			if o.PreCommit != nil {
				o.PreCommit()
			}
			res.Err = tx.Commit()
		} else {
			res.Err = tx.Rollback()
		}
		return res
	}
	return ExecResult{Err: fmt.Errorf("not a write op: %s", o.K)}
}

// SharedBuffer returns copies of key and value cut out of one buffer, as a
// caller does that assembles a request in a scratch area: the key slice has
// spare capacity, and the value lies right behind it. (A nil value stays nil.)
func SharedBuffer(key, value []byte) (k, v []byte) {
	buf := make([]byte, len(key)+len(value)+32)
	copy(buf, key)
	copy(buf[len(key):], value)
	k = buf[:len(key)]
	if value != nil {
		v = buf[len(key) : len(key)+len(value)]
	}
	return k, v
}

var noScribble = os.Getenv("KEVOSIM_NOSCRIBBLE") != ""

func scribbleBytes(bufs ...[]byte) {
	if noScribble {
		return
	}
	for _, b := range bufs {
		for i := range b {
			b[i] ^= 0x5a
		}
	}
}

// IsNotFound recognises every not-found error kevo's layers use.
func IsNotFound(err error) bool {
	if err == nil {
		return false
	}
	if errors.Is(err, engine.ErrKeyNotFound) {
		return true
	}
	return err.Error() == "key not found"
}

// GetKey returns (value, found, error) with not-found folded into found=false.
func GetKey(e *engine.EngineFacade, k []byte) ([]byte, bool, error) {
	v, err := e.Get(k)
	if err != nil {
		if IsNotFound(err) {
			return nil, false, nil
		}
		return nil, false, err
	}
	if v == nil {
		v = []byte{}
	}
	keepRead(k, v)
	return v, true, nil
}
