// Package kit holds what the check programmes share: seeded generation,
// reference models, node lifecycle on the simulated disk, and the worker driver.
package kit

import (
	"os"
	"time"

	"github.com/KevoDB/kevo/zsim/simrt"
)

// Rand is a splitmix64 generator (generation-time randomness; in-run choices
// come from the simulator's own stream).
type Rand struct{ s uint64 }

func mix(z uint64) uint64 {
	z = (z ^ (z >> 30)) * 0xbf58476d1ce4e5b9
	z = (z ^ (z >> 27)) * 0x94d049bb133111eb
	return z ^ (z >> 31)
}

func NewRand(seed uint64) *Rand { return &Rand{s: mix(seed ^ 0x6a09e667f3bcc909)} }

func (r *Rand) Uint64() uint64 {
	r.s += 0x9e3779b97f4a7c15
	return mix(r.s)
}

func (r *Rand) Intn(n int) int {
	if n <= 1 {
		return 0
	}
	return int(r.Uint64() % uint64(n))
}

// Range returns a value in [lo, hi].
func (r *Rand) Range(lo, hi int) int { return lo + r.Intn(hi-lo+1) }

func (r *Rand) Float() float64 { return float64(r.Uint64()>>11) / float64(1<<53) }

func (r *Rand) Bool(p float64) bool { return r.Float() < p }

// Pick returns an index chosen with the given integer weights.
func (r *Rand) Pick(weights ...int) int {
	total := 0
	for _, w := range weights {
		total += w
	}
	x := r.Intn(total)
	for i, w := range weights {
		if x < w {
			return i
		}
		x -= w
	}
	return len(weights) - 1
}

func PickOf[T any](r *Rand, xs ...T) T { return xs[r.Intn(len(xs))] }

// SeedFor derives the seed of case i of a property from the batch seed.
func SeedFor(base uint64, prop string, i int) uint64 {
	h := mix(base + 0x1234)
	for _, c := range []byte(prop) {
		h = mix(h ^ uint64(c))
	}
	return mix(h ^ uint64(i)*0x9e3779b97f4a7c15)
}

// TraceLimit overrides the trace ring size (debugging).
var TraceLimit int

// Sched is the per-run scheduler configuration; part of every case so that a
// replay is a pure function of the case.
type Sched struct {
	Seed      uint64                `json:"seed"`
	Strategy  int                   `json:"strategy"`
	StickyP   float64               `json:"sticky_p,omitempty"`
	PCTDepth  int                   `json:"pct_depth,omitempty"`
	PCTSpan   int64                 `json:"pct_span,omitempty"`
	TimePassP float64               `json:"time_pass_p,omitempty"`
	Density   [simrt.NClass]float64 `json:"density"`
	MaxSteps  int64                 `json:"max_steps,omitempty"`
	MaxVirtS  int64                 `json:"max_virtual_s,omitempty"`
}

// GenSched draws a scheduler configuration. profile: "seq" (one client plus
// background tasks; sparse yields), "conc" (several clients; denser), "dense"
// (every synchronisation operation), "net" (replication).
func GenSched(r *Rand, profile string) Sched {
	s := Sched{Seed: r.Uint64()}
	switch r.Pick(4, 4, 2) {
	case 0:
		s.Strategy = simrt.StratUniform
	case 1:
		s.Strategy = simrt.StratSticky
		s.StickyP = PickOf(r, 0.5, 0.9, 0.99)
	case 2:
		s.Strategy = simrt.StratPCT
		s.PCTDepth = r.Range(1, 3)
		s.PCTSpan = int64(PickOf(r, 200, 2000, 20000))
	}
	d := &s.Density
	switch profile {
	case "seq":
		d[simrt.CLock] = PickOf(r, 0.05, 0.3, 1)
		d[simrt.CUnlock] = PickOf(r, 0.0, 0.1, 0.5)
		d[simrt.CAtomic] = PickOf(r, 0.0, 0.05, 0.3)
		d[simrt.CIO] = PickOf(r, 0.2, 0.6, 1)
		d[simrt.CChan] = 1
		d[simrt.CGo] = 1
	case "conc", "net":
		d[simrt.CLock] = PickOf(r, 0.3, 0.7, 1)
		d[simrt.CUnlock] = PickOf(r, 0.1, 0.5, 1)
		d[simrt.CAtomic] = PickOf(r, 0.05, 0.3, 1)
		d[simrt.CIO] = PickOf(r, 0.3, 1, 1)
		d[simrt.CChan] = 1
		d[simrt.CGo] = 1
		d[simrt.CQLock] = PickOf(r, 0.0, 0.0, 0.05)
		d[simrt.CQAtomic] = PickOf(r, 0.0, 0.0, 0.02)
		if r.Bool(0.3) {
			s.TimePassP = PickOf(r, 0.001, 0.01, 0.05)
		}
	case "dense":
		for i := range d {
			d[i] = 1
		}
		d[simrt.CQLock], d[simrt.CQUnlock], d[simrt.CQAtomic] = 0, 0, 0
	}
	d[simrt.CUser] = 1
	return s
}

func (s Sched) Config() simrt.Config {
	c := simrt.Config{Seed: s.Seed, Strategy: s.Strategy, StickyP: s.StickyP, PCTDepth: s.PCTDepth, PCTSpan: s.PCTSpan,
		TimePassP: s.TimePassP, Density: s.Density, MaxSteps: s.MaxSteps}
	if TraceLimit > 0 {
		c.TraceLimit = TraceLimit
	}
	c.EchoPrintf = os.Getenv("KEVOSIM_ECHO") != ""
	if s.MaxVirtS > 0 {
		c.MaxVirtual = time.Duration(s.MaxVirtS) * time.Second
	}
	return c
}
