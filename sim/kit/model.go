package kit

import (
	"bytes"
	"fmt"
	"sort"
	"strings"
)

// W is one write of a step: a put (Del=false) or a delete.
type W struct {
	Key []byte
	Val []byte
	Del bool
}

// Model is the reference key-value map with the history of its prefix states.
// Step i (1-based) is the i-th write step (single write, or a whole
// batch/transaction); states[i] is the map after steps 1..i.
type Model struct {
	states []map[string][]byte
	steps  [][]W
	keys   map[string]bool // every key ever used (also by reads)
	Acked  int             // steps [1..Acked] were acknowledged
}

func NewModel() *Model {
	return &Model{states: []map[string][]byte{{}}, steps: [][]W{nil}, keys: map[string]bool{}}
}

func (m *Model) Len() int { return len(m.states) - 1 }

func (m *Model) cur() map[string][]byte { return m.states[len(m.states)-1] }

// Apply appends a write step and returns its index.
func (m *Model) Apply(ws []W) int {
	prev := m.cur()
	next := make(map[string][]byte, len(prev)+len(ws))
	for k, v := range prev {
		next[k] = v
	}
	for _, w := range ws {
		m.keys[string(w.Key)] = true
		if w.Del {
			delete(next, string(w.Key))
		} else {
			v := w.Val
			if v == nil {
				v = []byte{}
			}
			next[string(w.Key)] = v
		}
	}
	m.states = append(m.states, next)
	m.steps = append(m.steps, ws)
	return len(m.states) - 1
}

// Truncate forgets steps after n (used after a crash recovery resolved to prefix n).
func (m *Model) Truncate(n int) {
	m.states = m.states[:n+1]
	m.steps = m.steps[:n+1]
	if m.Acked > n {
		m.Acked = n
	}
}

func (m *Model) Touch(key []byte) { m.keys[string(key)] = true }

func (m *Model) Get(key []byte) ([]byte, bool) {
	m.keys[string(key)] = true
	v, ok := m.cur()[string(key)]
	return v, ok
}

func (m *Model) GetAt(step int, key []byte) ([]byte, bool) {
	v, ok := m.states[step][string(key)]
	return v, ok
}

func (m *Model) State(step int) map[string][]byte { return m.states[step] }

func (m *Model) Step(i int) []W { return m.steps[i] }

// Keys returns every key ever used, sorted.
func (m *Model) Keys() [][]byte {
	out := make([][]byte, 0, len(m.keys))
	for k := range m.keys {
		out = append(out, []byte(k))
	}
	sort.Slice(out, func(i, j int) bool { return bytes.Compare(out[i], out[j]) < 0 })
	return out
}

type KV struct {
	Key []byte
	Val []byte
}

func SortedKVs(m map[string][]byte) []KV {
	out := make([]KV, 0, len(m))
	for k, v := range m {
		out = append(out, KV{[]byte(k), v})
	}
	sort.Slice(out, func(i, j int) bool { return bytes.Compare(out[i].Key, out[j].Key) < 0 })
	return out
}

func (m *Model) Sorted() []KV { return SortedKVs(m.cur()) }

// EqualState compares an observed state with a model state; it returns a
// description of the first difference or "".
func EqualState(obs, want map[string][]byte) string {
	for k, w := range want {
		o, ok := obs[k]
		if !ok {
			return fmt.Sprintf("key %s missing (want %s)", Q([]byte(k)), Q(w))
		}
		if !bytes.Equal(o, w) {
			return fmt.Sprintf("key %s = %s, want %s", Q([]byte(k)), Q(o), Q(w))
		}
	}
	for k, o := range obs {
		if _, ok := want[k]; !ok {
			return fmt.Sprintf("key %s = %s, want not-found", Q([]byte(k)), Q(o))
		}
	}
	return ""
}

// MatchPrefix finds a step k in [lo,hi] whose state equals obs. It prefers the
// largest k. ok=false if none matches; why describes the difference to state hi.
func (m *Model) MatchPrefix(obs map[string][]byte, lo, hi int) (k int, ok bool, why string) {
	if hi > m.Len() {
		hi = m.Len()
	}
	if lo < 0 {
		lo = 0
	}
	if hi < lo {
		return -1, false, "empty window"
	}
	for k = hi; k >= lo; k-- {
		if EqualState(obs, m.states[k]) == "" {
			return k, true, ""
		}
	}
	return -1, false, EqualState(obs, m.states[hi])
}

// Q renders bytes compactly for messages.
func Q(b []byte) string {
	if b == nil {
		return "<nil>"
	}
	if len(b) > 24 {
		return fmt.Sprintf("%q…(%d bytes)", b[:16], len(b))
	}
	return fmt.Sprintf("%q", b)
}

func DescribeState(m map[string][]byte) string {
	var b strings.Builder
	for _, kv := range SortedKVs(m) {
		fmt.Fprintf(&b, "%s=%s ", Q(kv.Key), Q(kv.Val))
	}
	return b.String()
}

// MatchPartialStep reports whether obs equals state[k-1] plus a strict,
// non-empty prefix of the writes of step k (in issue order or in key order,
// the order a transaction commit logs them), for some k in [lo,hi].
func (m *Model) MatchPartialStep(obs map[string][]byte, lo, hi int) (k, j int, ok bool) {
	if lo < 1 {
		lo = 1
	}
	if hi > m.Len() {
		hi = m.Len()
	}
	for k = lo; k <= hi; k++ {
		ws := m.steps[k]
		if len(ws) < 2 {
			continue
		}
		sorted := append([]W(nil), ws...)
		sort.SliceStable(sorted, func(a, b int) bool { return bytes.Compare(sorted[a].Key, sorted[b].Key) < 0 })
		for _, order := range [][]W{ws, sorted} {
			st := make(map[string][]byte, len(m.states[k-1]))
			for kk, v := range m.states[k-1] {
				st[kk] = v
			}
			for j = 1; j < len(order); j++ {
				w := order[j-1]
				if w.Del {
					delete(st, string(w.Key))
				} else {
					v := w.Val
					if v == nil {
						v = []byte{}
					}
					st[string(w.Key)] = v
				}
				if EqualState(obs, st) == "" && EqualState(obs, m.states[k]) != "" {
					return k, j, true
				}
			}
		}
	}
	return 0, 0, false
}
