// Package simfp replaces path/filepath in the instrumented copy of kevo.
// Pure functions are forwarded; Glob/Walk consult the simulated file system.
package simfp

import (
	"io/fs"
	"path/filepath"
	"sort"
	"strings"

	"github.com/KevoDB/kevo/zsim/simos"
)

const Separator = '/'

var SkipDir = fs.SkipDir
var ErrBadPattern = filepath.ErrBadPattern

type WalkFunc = filepath.WalkFunc

func Join(elem ...string) string        { return filepath.Join(elem...) }
func Base(p string) string              { return filepath.Base(p) }
func Dir(p string) string               { return filepath.Dir(p) }
func Ext(p string) string               { return filepath.Ext(p) }
func Clean(p string) string             { return filepath.Clean(p) }
func IsAbs(p string) bool               { return filepath.IsAbs(p) }
func Split(p string) (string, string)   { return filepath.Split(p) }
func Rel(b, t string) (string, error)   { return filepath.Rel(b, t) }
func Match(pat, n string) (bool, error) { return filepath.Match(pat, n) }
func ToSlash(p string) string           { return p }
func FromSlash(p string) string         { return p }
func VolumeName(p string) string        { return "" }
func Abs(p string) (string, error) {
	if strings.HasPrefix(p, "/") {
		return filepath.Clean(p), nil
	}
	return filepath.Clean("/cwd/" + p), nil
}

// Glob supports patterns whose directory part is literal.
func Glob(pattern string) ([]string, error) {
	if _, err := filepath.Match(pattern, ""); err != nil {
		return nil, err
	}
	dir, file := filepath.Split(pattern)
	dir = filepath.Clean(dir)
	if strings.ContainsAny(dir, "*?[") {
		return nil, filepath.ErrBadPattern
	}
	ents, err := simos.ReadDir(dir)
	if err != nil {
		return nil, nil
	}
	var out []string
	for _, e := range ents {
		ok, err := filepath.Match(file, e.Name())
		if err != nil {
			return nil, err
		}
		if ok {
			out = append(out, filepath.Join(dir, e.Name()))
		}
	}
	sort.Strings(out)
	return out, nil
}

func Walk(root string, fn WalkFunc) error {
	info, err := simos.Stat(root)
	if err != nil {
		return fn(root, nil, err)
	}
	return walk(root, info, fn)
}

func walk(p string, info fs.FileInfo, fn WalkFunc) error {
	if !info.IsDir() {
		return fn(p, info, nil)
	}
	if err := fn(p, info, nil); err != nil {
		if err == fs.SkipDir {
			return nil
		}
		return err
	}
	ents, err := simos.ReadDir(p)
	if err != nil {
		return fn(p, info, err)
	}
	for _, e := range ents {
		fi, _ := e.Info()
		if err := walk(filepath.Join(p, e.Name()), fi, fn); err != nil {
			if err == fs.SkipDir {
				continue
			}
			return err
		}
	}
	return nil
}
