//go:build race

package simrt

import "runtime"

const RaceEnabled = true

func raceDisable() { runtime.RaceDisable() }
func raceEnable()  { runtime.RaceEnable() }
