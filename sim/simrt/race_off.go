//go:build !race

package simrt

const RaceEnabled = false

func raceDisable() {}
func raceEnable()  {}
