// Package simrt is the deterministic task scheduler of kevosim.
//
// Every goroutine that executes kevo code is a Task. Exactly one task holds
// the baton at any time; the scheduler goroutine (the root goroutine of a
// testing/synctest bubble) decides from a seeded PRNG which parked task runs
// next. Tasks give the baton back at the scheduling points that the source
// rewriter and the sim* replacement packages insert (locks, atomics, I/O,
// channel operations, goroutine creation).
//
// All functions of this package are //go:norace (added mechanically when the
// package is copied into the scratch module) and baton hand-offs are wrapped
// in RaceDisable/RaceEnable so that ThreadSanitizer sees kevo's own
// synchronisation only.
package simrt

import (
	"fmt"
	"runtime"
	"sort"
	"strings"
	"sync"
	"sync/atomic"
	"testing"
	"testing/synctest"
	"time"
)

// Yield classes.
const (
	CLock = iota
	CUnlock
	CAtomic
	CIO
	CChan
	CGo
	CQLock   // pkg/stats
	CQUnlock // pkg/stats
	CQAtomic // pkg/stats
	CUser    // harness-inserted
	NClass
)

var ClassNames = [NClass]string{"lock", "unlock", "atomic", "io", "chan", "go", "qlock", "qunlock", "qatomic", "user"}

const (
	stReady = iota
	stRunning
	stBlocked   // parked, waiting for a simulated primitive
	stInRuntime // blocked in the Go runtime (channel, select, virtual sleep)
	stDone
)

var stateNames = []string{"ready", "running", "blocked", "in-runtime", "done"}

// Strategies.
const (
	StratUniform = iota
	StratSticky
	StratPCT
)

type Config struct {
	Seed       uint64
	MaxSteps   int64
	MaxVirtual time.Duration // run is a hang if virtual time since start exceeds this (0 = 1h)
	Density    [NClass]float64
	Strategy   int
	StickyP    float64
	PCTDepth   int
	PCTSpan    int64   // step range over which PCT change points are placed
	TimePassP  float64 // probability of letting virtual time pass although a task is runnable
	TraceLimit int     // keep the last N trace records (0 = 256)
	Verbose    bool
	EchoPrintf bool // verbose trace also shows kevo's own Printf debugging
	// SpinLimit > 0: the run is a livelock if that many scheduling steps are
	// taken in a row without virtual time advancing (a task that spins on a
	// value nobody will change keeps the clock frozen: something is always runnable)
	SpinLimit int64
}

type Task struct {
	ID        int
	Name      string
	goid      uint64
	wake      chan struct{}
	state     int
	blockedOn any
	prio      int64
	Node      string // incarnation tag, inherited by children
	Gen       int
	die       bool
	Steps     int64
	spin      int64 // steps since virtual time last advanced
	site      string
}

type traceRec struct {
	step  int64
	task  int
	class int8
	vt    int64
	note  string
}

// Outcome of a simulated run, as far as the scheduler is concerned.
type Outcome struct {
	Steps       int64
	VirtualNs   int64
	Truncated   bool   // step budget exhausted
	Deadlock    bool   // nothing runnable, nothing in the runtime
	Hang        bool   // MaxVirtual exceeded
	Livelock    bool   // SpinLimit steps without virtual time advancing
	Panic       string // a task panicked
	Detail      string // wait-for description for Deadlock/Hang
	TraceHash   uint64
	Leaked      int
	LeakedAt    []string
	Tasks       int
	YieldsTaken [NClass]int64
}

type Sim struct {
	atTeardown []func()
	cfg        Config
	mu         sync.Mutex // guards task state against tasks leaving a runtime block
	tasks      []*Task
	curp       atomic.Pointer[Task]
	kick       chan struct{}
	rng        uint64
	step       int64
	start      time.Time
	nexti      int

	dying     bool
	stop      bool
	mainDone  bool
	out       Outcome
	hash      uint64
	trace     []traceRec
	tpos      int
	pctAt     []int64
	notes     []string
	last      *Task
	lastClass int
	started   bool
	stallNs   int64 // virtual time spent in injected stalls
	lastVt    int64 // virtual time at the latest step that saw it change
	lastVtAt  int64 // ... and that step
	wantSites bool  // record yield sites (a livelock report is being prepared)
	skew      int64 // logical clock skew (ns) added to time.Now for kevo code

	// OnStep, if set, is called by the scheduler after every synctest.Wait
	// while all tasks are parked (cheap invariants).
	OnStep func() error
	invErr error
}

// S is the active simulation (nil outside a run).
var S *Sim

//go:nosplit
func mix(z uint64) uint64 {
	z = (z ^ (z >> 30)) * 0xbf58476d1ce4e5b9
	z = (z ^ (z >> 27)) * 0x94d049bb133111eb
	return z ^ (z >> 31)
}

func (s *Sim) next() uint64 {
	s.rng += 0x9e3779b97f4a7c15
	return mix(s.rng)
}

// Intn draws a scheduler/fault choice in [0,n). Must be called by the running
// task or the scheduler.
func (s *Sim) Intn(n int) int {
	if n <= 1 {
		return 0
	}
	return int(s.next() % uint64(n))
}

func (s *Sim) Float() float64 {
	return float64(s.next()>>11) / float64(1<<53)
}

// Intn draws from the active simulation's choice stream (0 when inactive).
func Intn(n int) int {
	if S == nil {
		return 0
	}
	return S.Intn(n)
}

func Float() float64 {
	if S == nil {
		return 1
	}
	return S.Float()
}

// Uint64 draws 64 bits from the active simulation's choice stream.
func Uint64() uint64 {
	if S == nil {
		return 0
	}
	return S.next()
}

func (s *Sim) hashIn(a, b, c uint64) {
	h := s.hash
	h = mix(h ^ a*0x9e3779b97f4a7c15)
	h = mix(h ^ b*0xc2b2ae3d27d4eb4f)
	h = mix(h ^ c*0x165667b19e3779f9)
	s.hash = h
}

// Note mixes an observable event into the trace hash and the trace ring.
func Note(format string, args ...any) {
	s := S
	if s == nil {
		return
	}
	msg := format
	if len(args) > 0 {
		msg = fmt.Sprintf(format, args...)
	}
	var h uint64 = 1469598103934665603
	for i := 0; i < len(msg); i++ {
		h = (h ^ uint64(msg[i])) * 1099511628211
	}
	s.hashIn(h, 0, 7)
	tid := -1
	if s.curp.Load() != nil {
		tid = s.curp.Load().ID
	}
	s.addTrace(traceRec{step: s.step, task: tid, class: -1, vt: s.vnow(), note: msg})
}

// Printf/Println replace kevo's unconditional debugging output to stdout
// (pkg/replication prints several lines per replicated entry). The text only
// reaches the verbose trace; it never feeds the trace hash.
func Printf(format string, args ...any) {
	s := S
	if s == nil || !s.cfg.Verbose || !s.cfg.EchoPrintf {
		return
	}
	tid := -1
	if s.curp.Load() != nil {
		tid = s.curp.Load().ID
	}
	s.addTrace(traceRec{step: s.step, task: tid, class: -1, vt: s.vnow(), note: "| " + strings.TrimRight(fmt.Sprintf(format, args...), "\n")})
}

func Println(args ...any) { Printf("%s", fmt.Sprintln(args...)) }

// Hash mixes a value into the trace hash only.
func Hash(v uint64) {
	if S != nil {
		S.hashIn(v, 1, 9)
	}
}

func (s *Sim) vnow() int64 { return int64(time.Since(s.start)) }

func (s *Sim) addTrace(r traceRec) {
	n := s.cfg.TraceLimit
	if n == 0 {
		n = 256
	}
	if len(s.trace) < n {
		s.trace = append(s.trace, r)
	} else {
		s.trace[s.tpos%n] = r
	}
	s.tpos++
}

// TraceLines returns the retained tail of the event trace.
func (s *Sim) TraceLines() []string {
	n := len(s.trace)
	out := make([]string, 0, n)
	startIdx := 0
	if s.tpos > n {
		startIdx = s.tpos % n
	}
	for i := 0; i < n; i++ {
		r := s.trace[(startIdx+i)%n]
		if r.class < 0 {
			out = append(out, fmt.Sprintf("%d t%d @%s | %s", r.step, r.task, time.Duration(r.vt), r.note))
		} else {
			out = append(out, fmt.Sprintf("%d t%d @%s %s", r.step, r.task, time.Duration(r.vt), r.note))
		}
	}
	return out
}

// Active reports whether the caller runs inside a simulation as a task that
// currently holds the baton.
func Active() bool {
	s := S
	if s == nil || s.curp.Load() == nil {
		return false
	}
	return s.curp.Load().goid == runtime.SimGoid()
}

// Cur returns the running task if the caller is it, else nil.
func Cur() *Task {
	s := S
	if s == nil {
		return nil
	}
	g := runtime.SimGoid()
	if c := s.curp.Load(); c != nil && c.goid == g {
		return c
	}
	if s.started && !s.dying {
		// A task that blocked inside uninstrumented library code (a gRPC
		// server's GracefulStop, say) was classified as in-runtime and lost the
		// baton; nothing re-acquired it when the call returned. Every simulator
		// primitive asks Cur first, so the task queues up here before it touches
		// simulated state, instead of running beside the scheduled task.
		Reacquire()
		if c := s.curp.Load(); c != nil && c.goid == g {
			return c
		}
	}
	return nil
}

func Dying() bool { return S != nil && S.dying }

// Now returns virtual nanoseconds since the run started.
func Now() int64 {
	if S == nil {
		return 0
	}
	return S.vnow()
}

func Step() int64 {
	if S == nil {
		return 0
	}
	return S.step
}

// park gives the baton back and waits to be chosen again.
func (s *Sim) park(t *Task, st int) {
	raceDisable()
	s.mu.Lock()
	t.state = st
	s.mu.Unlock()
	<-t.wake
	raceEnable()
	if t.die {
		runtime.Goexit()
	}
}

// Yield is a scheduling point of the given class.
func Yield(class int) {
	s := S
	if s == nil {
		return
	}
	t := s.curp.Load()
	if t == nil || t.goid != runtime.SimGoid() {
		return
	}
	if s.dying || t.die {
		return
	}
	d := s.cfg.Density[class]
	if d <= 0 {
		return
	}
	if d < 1 && s.Float() >= d {
		return
	}
	s.out.YieldsTaken[class]++
	if s.cfg.Verbose || s.wantSites {
		t.site = callerSite()
	}
	t.blockedOn = nil
	s.lastClass = class
	s.park(t, stReady)
}

// YieldAlways is a scheduling point that ignores densities (used by harness code).
func YieldAlways() {
	s := S
	if s == nil {
		return
	}
	t := s.curp.Load()
	if t == nil || t.goid != runtime.SimGoid() || s.dying || t.die {
		return
	}
	s.lastClass = CUser
	s.park(t, stReady)
}

// Block parks the running task until another task calls Wake on it.
// Returns false if the caller is not a task (nothing was done).
func Block(obj any) bool {
	s := S
	if s == nil {
		return false
	}
	t := s.curp.Load()
	if t == nil || t.goid != runtime.SimGoid() {
		return false
	}
	if s.dying || t.die {
		runtime.Goexit()
	}
	t.blockedOn = obj
	if s.cfg.Verbose {
		t.site = callerSite()
	}
	s.lastClass = CLock
	s.park(t, stBlocked)
	return true
}

// Wake makes a task blocked in Block runnable again. Called by the running task.
func Wake(t *Task) {
	s := S
	if s == nil || t == nil {
		return
	}
	s.mu.Lock()
	if t.state == stBlocked {
		t.state = stReady
		t.blockedOn = nil
	}
	s.mu.Unlock()
}

// Reacquire must be the first thing a task executes after an operation that
// may have blocked in the Go runtime.
func Reacquire() {
	s := S
	if s == nil {
		return
	}
	g := runtime.SimGoid()
	if c := s.curp.Load(); c != nil && c.goid == g {
		// Still the baton holder: the scheduler clears curp before it
		// classifies a task as in-runtime, so nothing to do.
		return
	}
	raceDisable()
	s.mu.Lock()
	// (no Go map here: the runtime's map code reports its accesses to the race
	// detector whatever the caller's //go:norace says)
	var t *Task
	for _, x := range s.tasks {
		if x != nil && x.goid == g && x.state != stDone {
			t = x
			break
		}
	}
	s.mu.Unlock()
	raceEnable()
	if t == nil {
		return
	}
	s.reenter(t)
}

func (s *Sim) reenter(t *Task) {
	raceDisable()
	s.mu.Lock()
	if t.state != stInRuntime {
		s.mu.Unlock()
		raceEnable()
		return
	}
	t.state = stReady
	s.mu.Unlock()
	select {
	case s.kick <- struct{}{}:
	default:
	}
	<-t.wake
	raceEnable()
	if t.die {
		runtime.Goexit()
	}
}

// Sleep is time.Sleep on the virtual clock with scheduling points around it.
func Sleep(d time.Duration) {
	if Cur() == nil {
		time.Sleep(d)
		Reacquire()
		return
	}
	Yield(CChan)
	time.Sleep(d)
	Reacquire()
}

// Go starts f as a new task (born parked).
func Go(f func()) { GoNamed("", f) }

func GoNamed(name string, f func()) {
	s := S
	if s == nil {
		go f()
		return
	}
	parent := Cur()
	if parent == nil && s.started {
		// Not a task (e.g. a runtime timer goroutine): still make it a task so
		// that kevo code never runs outside the baton.
		parent = nil
	}
	if s.dying {
		return
	}
	t := &Task{wake: make(chan struct{}, 1), state: stReady}
	if parent != nil {
		t.Node, t.Gen = parent.Node, parent.Gen
	}
	s.mu.Lock()
	t.ID = s.nexti
	s.nexti++
	if name == "" {
		name = fmt.Sprintf("g%d", t.ID)
		if parent != nil {
			name = fmt.Sprintf("g%d<%s", t.ID, parent.Name)
			if len(name) > 40 {
				name = name[:40]
			}
		}
	}
	t.Name = name
	t.prio = int64(s.next() >> 1)
	s.tasks = append(s.tasks, t)
	s.mu.Unlock()
	go s.taskMain(t, f)
	Yield(CGo)
}

func (s *Sim) taskMain(t *Task, f func()) {
	raceDisable()
	s.mu.Lock()
	t.goid = runtime.SimGoid()
	s.mu.Unlock()
	<-t.wake
	raceEnable()
	defer s.taskExit(t)
	if t.die {
		return
	}
	f()
}

func (s *Sim) taskExit(t *Task) {
	if r := recover(); r != nil {
		buf := make([]byte, 16384)
		n := runtime.Stack(buf, false)
		if s.out.Panic == "" {
			s.out.Panic = fmt.Sprintf("task %s panicked: %v\n%s", t.Name, r, buf[:n])
		}
		s.stop = true
	}
	raceDisable()
	s.mu.Lock()
	t.state = stDone
	if t.ID == 0 {
		s.mainDone = true
	}
	s.mu.Unlock()
	raceEnable()
}

func callerSite() string {
	pcs := make([]uintptr, 12)
	n := runtime.Callers(3, pcs)
	fr := runtime.CallersFrames(pcs[:n])
	for {
		f, more := fr.Next()
		if !strings.Contains(f.File, "/zsim/sim") {
			fn := f.Function
			if i := strings.LastIndex(fn, "/"); i >= 0 {
				fn = fn[i+1:]
			}
			return fmt.Sprintf("%s:%d", fn, f.Line)
		}
		if !more {
			break
		}
	}
	return "?"
}

// SetTag sets the incarnation tag of the running task (inherited by tasks it starts).
func SetTag(node string, gen int) {
	if t := Cur(); t != nil {
		t.Node, t.Gen = node, gen
	}
}

func Tag() (string, int) {
	if t := Cur(); t != nil {
		return t.Node, t.Gen
	}
	return "", 0
}

// KillTagged marks every task with the given tag (other than the caller) to
// exit the next time it would run; they never execute kevo code again except
// deferred functions, which see a frozen disk.
func KillTagged(node string, gen int) int {
	s := S
	if s == nil {
		return 0
	}
	me := Cur()
	n := 0
	s.mu.Lock()
	for _, t := range s.tasks {
		if t.state != stDone && t.Node == node && t.Gen == gen {
			t.die = true
			if t.state == stBlocked {
				t.state = stReady
			}
			if t != me {
				n++
			}
		}
	}
	s.mu.Unlock()
	return n
}

// Stop asks the scheduler to end the run (used on a detected violation).
func Stop() {
	if S != nil {
		S.stop = true
	}
}

// Run executes main as task 0 of a fresh simulation inside a synctest bubble
// and returns when main has returned (or the run was aborted) and the
// remaining tasks have been torn down.
func Run(t *testing.T, cfg Config, main func()) (out Outcome) {
	if cfg.MaxSteps == 0 {
		cfg.MaxSteps = 2_000_000
	}
	if cfg.MaxVirtual == 0 {
		cfg.MaxVirtual = time.Hour
	}
	s := &Sim{cfg: cfg}
	s.rng = mix(cfg.Seed ^ 0x5851f42d4c957f2d)
	s.hash = 0xcbf29ce484222325
	if cfg.Strategy == StratPCT {
		span := cfg.PCTSpan
		if span <= 0 {
			span = 2000
		}
		for i := 0; i < cfg.PCTDepth; i++ {
			s.pctAt = append(s.pctAt, int64(s.next()%uint64(span)))
		}
		sort.Slice(s.pctAt, func(i, j int) bool { return s.pctAt[i] < s.pctAt[j] })
	}
	defer func() {
		S = nil
		runtime.SimSetRand(0)
		out = s.out
	}()
	// synctest.Test calls t.FailNow (runtime.Goexit) when the inner test failed,
	// e.g. because the race detector reported something during the run: run it
	// on a helper goroutine so that only that goroutine ends.
	finished := make(chan any, 1)
	go s.runBubble(t, main, finished)
	if r := <-finished; r != nil {
		panic(r)
	}
	return
}

func (s *Sim) runBubble(t *testing.T, main func(), finished chan any) {
	var rec any
	defer func() {
		if r := recover(); r != nil {
			msg := fmt.Sprint(r)
			if !strings.Contains(msg, "deadlock:") {
				rec = r
			}
			// else: leaked goroutines at the end of the bubble; already counted
		}
		finished <- rec
	}()
	cfg := s.cfg
	synctest.Test(t, func(t *testing.T) {
		S = s
		s.kick = make(chan struct{}, 1) // must be created inside the bubble
		s.start = time.Now()
		runtime.SimSetRand(mix(cfg.Seed^0x1234567) | 1)
		s.started = true
		GoNamed("main", main)
		s.loop()
		s.out.VirtualNs = s.vnow() // (teardown lets hours of virtual time pass to fire stray timers)
		s.teardown()
		s.out.Steps = s.step
		s.out.TraceHash = s.hash
		s.out.Tasks = s.nexti
		runtime.SimSetRand(0)
	})
}

func (s *Sim) drainKick() {
	select {
	case <-s.kick:
	default:
	}
}

func (s *Sim) loop() {
	var runnable []*Task
	for {
		synctest.Wait()
		s.drainKick()
		s.mu.Lock()
		runnable = runnable[:0]
		inrt, live := 0, 0
		dead := 0
		for _, t := range s.tasks {
			switch t.state {
			case stDone:
				dead++
				continue
			case stRunning:
				t.state = stInRuntime
				inrt++
			case stInRuntime:
				inrt++
			case stReady:
				runnable = append(runnable, t)
			}
			live++
		}
		if dead > 64 && dead > live {
			k := 0
			for _, t := range s.tasks {
				if t.state != stDone {
					s.tasks[k] = t
					k++
				}
			}
			for i := k; i < len(s.tasks); i++ {
				s.tasks[i] = nil
			}
			s.tasks = s.tasks[:k]
		}
		s.curp.Store(nil)
		s.mu.Unlock()
		if s.mainDone || s.stop {
			return
		}
		if s.OnStep != nil {
			if err := s.OnStep(); err != nil {
				s.invErr = err
				return
			}
		}
		if s.step >= s.cfg.MaxSteps {
			s.out.Truncated = true
			return
		}
		if s.vnow()-s.stallNs > int64(s.cfg.MaxVirtual) {
			s.out.Hang = true
			s.out.Detail = s.describe()
			return
		}
		if len(runnable) == 0 {
			if inrt == 0 {
				s.out.Deadlock = true
				s.out.Detail = s.describe()
				return
			}
			// Let virtual time pass until some task leaves the runtime.
			tm := time.NewTimer(s.cfg.MaxVirtual + time.Second)
			select {
			case <-s.kick:
				tm.Stop()
			case <-tm.C:
			}
			continue
		}
		if s.cfg.TimePassP > 0 && inrt > 0 && s.Float() < s.cfg.TimePassP {
			// A stall: time passes although something is runnable.
			d := time.Duration(1+s.Intn(50)) * time.Millisecond
			if s.Intn(8) == 0 {
				d = time.Duration(1+s.Intn(20)) * time.Second
			}
			s.hashIn(uint64(d), 3, 3)
			s.addTrace(traceRec{step: s.step, task: -1, class: -1, vt: s.vnow(), note: fmt.Sprintf("stall %s", d)})
			s.stallNs += int64(d) // injected stalls are not charged to the hang budget
			tm := time.NewTimer(d)
			<-tm.C
			// tasks woken meanwhile have re-parked or will; loop re-waits
			continue
		}
		if s.cfg.SpinLimit > 0 {
			if v := s.vnow(); v != s.lastVt {
				s.lastVt, s.lastVtAt, s.wantSites = v, s.step, false
				for _, t := range s.tasks {
					t.spin = 0
				}
			} else if n := s.step - s.lastVtAt; n > s.cfg.SpinLimit {
				s.out.Livelock = true
				s.out.Detail = fmt.Sprintf("virtual time has not advanced for %d scheduling steps although tasks kept running\n", n) + s.describe()
				return
			} else if n > s.cfg.SpinLimit/2 {
				s.wantSites = true
			}
		}
		t := s.choose(runnable)
		s.step++
		t.Steps++
		t.spin++
		s.hashIn(uint64(t.ID), uint64(s.step), uint64(s.vnow()))
		if s.cfg.Verbose {
			s.addTrace(traceRec{step: s.step, task: t.ID, class: int8(s.lastClass), vt: s.vnow(), note: t.Name + " " + t.site})
		}
		s.mu.Lock()
		t.state = stRunning
		s.curp.Store(t)
		s.mu.Unlock()
		raceDisable()
		t.wake <- struct{}{}
		raceEnable()
	}
}

func (s *Sim) choose(r []*Task) *Task {
	if len(r) == 1 {
		return r[0]
	}
	switch s.cfg.Strategy {
	case StratSticky:
		if s.last != nil && s.Float() < s.cfg.StickyP {
			for _, t := range r {
				if t == s.last {
					return t
				}
			}
		}
	case StratPCT:
		for len(s.pctAt) > 0 && s.step >= s.pctAt[0] {
			s.pctAt = s.pctAt[1:]
			if s.last != nil {
				s.last.prio = -int64(s.step) // lowest so far
			}
		}
		best := r[0]
		for _, t := range r[1:] {
			if t.prio > best.prio {
				best = t
			}
		}
		s.last = best
		return best
	}
	t := r[s.Intn(len(r))]
	s.last = t
	return t
}

func (s *Sim) describe() string {
	var b strings.Builder
	for _, t := range s.tasks {
		if t.state == stDone {
			continue
		}
		fmt.Fprintf(&b, "task %d %s [%s] node=%s/%d", t.ID, t.Name, stateNames[t.state], t.Node, t.Gen)
		if t.blockedOn != nil {
			if d, ok := t.blockedOn.(interface{ SimDescribe() string }); ok {
				fmt.Fprintf(&b, " waits-for %s", d.SimDescribe())
			} else {
				fmt.Fprintf(&b, " waits-for %T", t.blockedOn)
			}
		}
		if t.site != "" {
			fmt.Fprintf(&b, " at %s", t.site)
		}
		if s.out.Livelock && t.spin > 0 {
			fmt.Fprintf(&b, " (%d steps since the clock last moved)", t.spin)
		}
		b.WriteString("\n")
	}
	return b.String()
}

// Describe returns the task table (for violation reports).
func Describe() string {
	if S == nil {
		return ""
	}
	return S.describe()
}

// teardown ends every remaining task: parked ones exit when woken, ones that
// are blocked in the runtime get virtual time to reach their next Reacquire.
func (s *Sim) teardown() {
	s.dying = true
	for _, f := range s.atTeardown {
		f()
	}
	for round := 0; round < 6; round++ {
		for {
			synctest.Wait()
			s.drainKick()
			var pick *Task
			s.mu.Lock()
			for _, t := range s.tasks {
				if t.state == stRunning {
					t.state = stInRuntime
				}
				if pick == nil && (t.state == stReady || t.state == stBlocked) {
					pick = t
				}
			}
			s.mu.Unlock()
			if pick == nil {
				break
			}
			pick.die = true
			s.mu.Lock()
			pick.state = stRunning
			s.curp.Store(pick)
			s.mu.Unlock()
			pick.wake <- struct{}{}
		}
		s.curp.Store(nil)
		left := 0
		s.mu.Lock()
		for _, t := range s.tasks {
			if t.state != stDone {
				left++
			}
		}
		s.mu.Unlock()
		if left == 0 {
			break
		}
		// advance virtual time so that tickers/timeouts fire
		d := []time.Duration{time.Second, 15 * time.Second, 2 * time.Minute, 10 * time.Minute, time.Hour, 3 * time.Hour}[round]
		time.Sleep(d)
	}
	synctest.Wait()
	s.mu.Lock()
	for _, t := range s.tasks {
		if t.state != stDone {
			s.out.Leaked++
			if len(s.out.LeakedAt) < 8 {
				s.out.LeakedAt = append(s.out.LeakedAt, t.Name+" "+stateNames[t.state]+" "+t.site)
			}
		}
	}
	s.mu.Unlock()
}

// AtTeardown registers f to run (on the scheduler goroutine, without the
// baton: it may only do non-blocking things such as closing a channel) when
// the run ends, before the remaining tasks are ended. Simulated devices use it
// to release tasks that wait on them.
func AtTeardown(f func()) {
	if S != nil {
		S.atTeardown = append(S.atTeardown, f)
	}
}

// InvariantError returns the error returned by OnStep, if any.
func (s *Sim) InvariantError() error { return s.invErr }

// TaskDying reports whether the calling task has been told to exit.
func TaskDying() bool {
	s := S
	if s == nil {
		return false
	}
	if s.dying {
		return true
	}
	if t := Cur(); t != nil {
		return t.die
	}
	return false
}

// ExitIfDying ends the calling task if its incarnation was killed.
func ExitIfDying() {
	if t := Cur(); t != nil && t.die {
		runtime.Goexit()
	}
}

// TimeNow is time.Now for instrumented code: the bubble clock plus a logical
// skew that grows with every file creation, so that names derived from
// time.Now().UnixNano() are unique although virtual time does not advance
// while tasks are runnable.
func TimeNow() time.Time {
	s := S
	if s == nil {
		return time.Now()
	}
	return time.Now().Add(time.Duration(s.skew))
}

func TimeSince(t time.Time) time.Duration { return TimeNow().Sub(t) }
func TimeUntil(t time.Time) time.Duration { return t.Sub(TimeNow()) }

// AdvanceSkew moves the logical clock of instrumented code forward.
func AdvanceSkew(d time.Duration) {
	if S != nil {
		S.skew += int64(d)
	}
}

// NowUnstalled returns virtual nanoseconds since the run started, not counting
// injected stalls: liveness budgets are measured on this clock, so that no
// timing verdict is given for time that passed because of an injected fault.
func NowUnstalled() int64 {
	if S == nil {
		return 0
	}
	return S.vnow() - S.stallNs
}
