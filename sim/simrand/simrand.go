// Package simrand replaces math/rand in the instrumented copy of kevo. The
// package-level functions draw from the simulation's own choice stream instead
// of the runtime's generator, which library code shares and consumes at
// moments that depend on garbage collection (sync.Pool misses). Explicitly
// seeded generators (rand.New(rand.NewSource(x))) stay what they are.
package simrand

import (
	"math/rand"

	"github.com/KevoDB/kevo/zsim/simrt"
)

type Rand = rand.Rand
type Source = rand.Source
type Source64 = rand.Source64
type Zipf = rand.Zipf

func New(src Source) *Rand        { return rand.New(src) }
func NewSource(seed int64) Source { return rand.NewSource(seed) }

func active() bool { return simrt.S != nil }

func Int63() int64 {
	if !active() {
		return rand.Int63()
	}
	return int64(simrt.Uint64() >> 1)
}

func Uint32() uint32 {
	if !active() {
		return rand.Uint32()
	}
	return uint32(simrt.Uint64() >> 32)
}

func Uint64() uint64 {
	if !active() {
		return rand.Uint64()
	}
	return simrt.Uint64()
}

func Int31() int32 { return int32(Int63() >> 32) }
func Int() int     { return int(uint(Int63())) }

func Int63n(n int64) int64 {
	if n <= 0 {
		panic("invalid argument to Int63n")
	}
	if !active() {
		return rand.Int63n(n)
	}
	return int64(simrt.Uint64() % uint64(n))
}

func Int31n(n int32) int32 { return int32(Int63n(int64(n))) }

func Intn(n int) int {
	if n <= 0 {
		panic("invalid argument to Intn")
	}
	return int(Int63n(int64(n)))
}

func Float64() float64 {
	if !active() {
		return rand.Float64()
	}
	return float64(simrt.Uint64()>>11) / float64(1<<53)
}

func Float32() float32 { return float32(Float64()) }

func Perm(n int) []int {
	m := make([]int, n)
	for i := 0; i < n; i++ {
		j := Intn(i + 1)
		m[i] = m[j]
		m[j] = i
	}
	return m
}

func Shuffle(n int, swap func(i, j int)) {
	for i := n - 1; i > 0; i-- {
		swap(i, Intn(i+1))
	}
}
