// Package simsync replaces package sync in the instrumented copy of kevo.
// Blocking is decided by simulator state; the embedded real primitive is taken
// only once the simulator has granted it (uncontended by construction) so the
// race detector still sees kevo's own happens-before edges.
package simsync

import (
	"fmt"
	"sort"
	"sync"

	"github.com/KevoDB/kevo/zsim/simrt"
)

const (
	cLock   = simrt.CLock
	cUnlock = simrt.CUnlock
)

type Locker = sync.Locker
type Pool = sync.Pool

// ---------------------------------------------------------------- Mutex

type Mutex struct {
	real    sync.Mutex
	locked  bool
	owner   *simrt.Task
	waiters []*simrt.Task
}

func (m *Mutex) SimDescribe() string {
	if m.owner != nil {
		return fmt.Sprintf("Mutex@%p held by task %d %s", m, m.owner.ID, m.owner.Name)
	}
	return fmt.Sprintf("Mutex@%p", m)
}

func (m *Mutex) Lock() {
	t := simrt.Cur()
	if t == nil {
		m.real.Lock()
		return
	}
	simrt.Yield(cLock)
	for m.locked {
		m.waiters = append(m.waiters, t)
		simrt.Block(m)
	}
	m.locked = true
	m.owner = t
	m.real.Lock()
}

func (m *Mutex) TryLock() bool {
	t := simrt.Cur()
	if t == nil {
		return m.real.TryLock()
	}
	simrt.Yield(cLock)
	if m.locked {
		return false
	}
	m.locked = true
	m.owner = t
	m.real.Lock()
	return true
}

func (m *Mutex) Unlock() {
	t := simrt.Cur()
	if t == nil {
		m.real.Unlock()
		return
	}
	if !m.locked {
		if simrt.TaskDying() {
			return
		}
		panic("sync: unlock of unlocked mutex (simsync)")
	}
	m.locked = false
	m.owner = nil
	m.real.Unlock()
	wakeAll(&m.waiters)
	simrt.Yield(cUnlock)
}

func wakeAll(w *[]*simrt.Task) {
	for i, t := range *w {
		simrt.Wake(t)
		(*w)[i] = nil
	}
	*w = (*w)[:0]
}

// ---------------------------------------------------------------- RWMutex

type RWMutex struct {
	real           sync.RWMutex
	writer         bool
	wowner         *simrt.Task
	readers        int
	writersWaiting int
	waiters        []*simrt.Task
	rowners        []*simrt.Task
}

func (m *RWMutex) SimDescribe() string {
	s := fmt.Sprintf("RWMutex@%p readers=%d writersWaiting=%d", m, m.readers, m.writersWaiting)
	if m.wowner != nil {
		s += fmt.Sprintf(" write-held by task %d %s", m.wowner.ID, m.wowner.Name)
	}
	for _, r := range m.rowners {
		s += fmt.Sprintf(" read-held by task %d %s", r.ID, r.Name)
	}
	return s
}

func (m *RWMutex) Lock() {
	t := simrt.Cur()
	if t == nil {
		m.real.Lock()
		return
	}
	simrt.Yield(cLock)
	if m.writer || m.readers > 0 {
		m.writersWaiting++
		for m.writer || m.readers > 0 {
			m.waiters = append(m.waiters, t)
			simrt.Block(m)
		}
		m.writersWaiting--
	}
	m.writer = true
	m.wowner = t
	m.real.Lock()
}

func (m *RWMutex) TryLock() bool {
	t := simrt.Cur()
	if t == nil {
		return m.real.TryLock()
	}
	simrt.Yield(cLock)
	if m.writer || m.readers > 0 {
		return false
	}
	m.writer = true
	m.wowner = t
	m.real.Lock()
	return true
}

func (m *RWMutex) Unlock() {
	t := simrt.Cur()
	if t == nil {
		m.real.Unlock()
		return
	}
	if !m.writer {
		if simrt.TaskDying() {
			return
		}
		panic("sync: Unlock of unlocked RWMutex (simsync)")
	}
	m.writer = false
	m.wowner = nil
	m.real.Unlock()
	wakeAll(&m.waiters)
	simrt.Yield(cUnlock)
}

func (m *RWMutex) RLock() {
	t := simrt.Cur()
	if t == nil {
		m.real.RLock()
		return
	}
	simrt.Yield(cLock)
	// As in Go: a pending writer blocks new readers.
	for m.writer || m.writersWaiting > 0 {
		m.waiters = append(m.waiters, t)
		simrt.Block(m)
	}
	m.readers++
	m.rowners = append(m.rowners, t)
	m.real.RLock()
}

func (m *RWMutex) TryRLock() bool {
	t := simrt.Cur()
	if t == nil {
		return m.real.TryRLock()
	}
	simrt.Yield(cLock)
	if m.writer || m.writersWaiting > 0 {
		return false
	}
	m.readers++
	m.rowners = append(m.rowners, t)
	m.real.RLock()
	return true
}

func (m *RWMutex) RUnlock() {
	t := simrt.Cur()
	if t == nil {
		m.real.RUnlock()
		return
	}
	if m.readers <= 0 {
		if simrt.TaskDying() {
			return
		}
		panic("sync: RUnlock of unlocked RWMutex (simsync)")
	}
	m.readers--
	// drop one ownership record (prefer the caller's)
	idx := -1
	for i, r := range m.rowners {
		if r == t {
			idx = i
			break
		}
	}
	if idx < 0 {
		idx = len(m.rowners) - 1
	}
	if idx >= 0 {
		// (element-wise: the runtime's slice copy reports to the race detector)
		for j := idx; j < len(m.rowners)-1; j++ {
			m.rowners[j] = m.rowners[j+1]
		}
		m.rowners[len(m.rowners)-1] = nil
		m.rowners = m.rowners[:len(m.rowners)-1]
	}
	m.real.RUnlock()
	if m.readers == 0 || true {
		wakeAll(&m.waiters)
	}
	simrt.Yield(cUnlock)
}

type rlocker RWMutex

func (r *rlocker) Lock()   { (*RWMutex)(r).RLock() }
func (r *rlocker) Unlock() { (*RWMutex)(r).RUnlock() }

func (m *RWMutex) RLocker() Locker { return (*rlocker)(m) }

// ---------------------------------------------------------------- WaitGroup

type WaitGroup struct {
	real    sync.WaitGroup
	n       int
	waiters []*simrt.Task
}

func (w *WaitGroup) SimDescribe() string { return fmt.Sprintf("WaitGroup@%p n=%d", w, w.n) }

func (w *WaitGroup) Add(d int) {
	if simrt.S == nil {
		w.real.Add(d)
		return
	}
	w.n += d
	if w.n < 0 {
		if simrt.TaskDying() {
			w.n = 0
			return
		}
		panic("sync: negative WaitGroup counter (simsync)")
	}
	w.real.Add(d)
	if w.n == 0 {
		wakeAll(&w.waiters)
	}
}

func (w *WaitGroup) Done() { w.Add(-1) }

func (w *WaitGroup) Go(f func()) {
	w.Add(1)
	simrt.Go(func() {
		defer w.Done()
		f()
	})
}

func (w *WaitGroup) Wait() {
	t := simrt.Cur()
	if t == nil {
		w.real.Wait()
		return
	}
	simrt.Yield(cLock)
	for w.n > 0 {
		w.waiters = append(w.waiters, t)
		simrt.Block(w)
	}
	w.real.Wait()
}

// ---------------------------------------------------------------- Once

type Once struct {
	real    sync.Once
	done    bool
	running bool
	waiters []*simrt.Task
}

func (o *Once) SimDescribe() string { return fmt.Sprintf("Once@%p", o) }

func (o *Once) Do(f func()) {
	t := simrt.Cur()
	if t == nil {
		o.real.Do(f)
		o.done = true
		return
	}
	simrt.Yield(cLock)
	for o.running {
		o.waiters = append(o.waiters, t)
		simrt.Block(o)
	}
	if o.done {
		o.real.Do(func() {})
		return
	}
	o.running = true
	defer o.finish()
	o.real.Do(f)
}

// finish is a named method (not a closure) so that //go:norace covers it.
func (o *Once) finish() {
	o.running = false
	o.done = true
	wakeAll(&o.waiters)
}

// ---------------------------------------------------------------- Cond

type Cond struct {
	L       Locker
	waiters []*simrt.Task
	real    *sync.Cond
}

func NewCond(l Locker) *Cond { return &Cond{L: l, real: sync.NewCond(l)} }

func (c *Cond) SimDescribe() string { return fmt.Sprintf("Cond@%p", c) }

func (c *Cond) Wait() {
	t := simrt.Cur()
	if t == nil {
		c.real.Wait()
		return
	}
	c.waiters = append(c.waiters, t)
	c.L.Unlock()
	simrt.Block(c)
	c.L.Lock()
}

func (c *Cond) Signal() {
	if simrt.Cur() == nil {
		c.real.Signal()
		return
	}
	if len(c.waiters) > 0 {
		i := simrt.Intn(len(c.waiters))
		simrt.Wake(c.waiters[i])
		for j := i; j < len(c.waiters)-1; j++ {
			c.waiters[j] = c.waiters[j+1]
		}
		c.waiters[len(c.waiters)-1] = nil
		c.waiters = c.waiters[:len(c.waiters)-1]
	}
}

func (c *Cond) Broadcast() {
	if simrt.Cur() == nil {
		c.real.Broadcast()
		return
	}
	wakeAll(&c.waiters)
}

// ---------------------------------------------------------------- Map

// Map is a mutex-protected map with sorted Range (deterministic).
type Map struct {
	mu Mutex
	m  map[any]any
}

func (m *Map) Load(key any) (any, bool) {
	m.mu.Lock()
	defer m.mu.Unlock()
	v, ok := m.m[key]
	return v, ok
}

func (m *Map) Store(key, value any) {
	m.mu.Lock()
	defer m.mu.Unlock()
	if m.m == nil {
		m.m = map[any]any{}
	}
	m.m[key] = value
}

func (m *Map) LoadOrStore(key, value any) (any, bool) {
	m.mu.Lock()
	defer m.mu.Unlock()
	if m.m == nil {
		m.m = map[any]any{}
	}
	if v, ok := m.m[key]; ok {
		return v, true
	}
	m.m[key] = value
	return value, false
}

func (m *Map) LoadAndDelete(key any) (any, bool) {
	m.mu.Lock()
	defer m.mu.Unlock()
	v, ok := m.m[key]
	delete(m.m, key)
	return v, ok
}

func (m *Map) Delete(key any) {
	m.mu.Lock()
	defer m.mu.Unlock()
	delete(m.m, key)
}

func (m *Map) Swap(key, value any) (any, bool) {
	m.mu.Lock()
	defer m.mu.Unlock()
	if m.m == nil {
		m.m = map[any]any{}
	}
	v, ok := m.m[key]
	m.m[key] = value
	return v, ok
}

func (m *Map) CompareAndSwap(key, old, new any) bool {
	m.mu.Lock()
	defer m.mu.Unlock()
	if v, ok := m.m[key]; ok && v == old {
		m.m[key] = new
		return true
	}
	return false
}

func (m *Map) CompareAndDelete(key, old any) bool {
	m.mu.Lock()
	defer m.mu.Unlock()
	if v, ok := m.m[key]; ok && v == old {
		delete(m.m, key)
		return true
	}
	return false
}

func (m *Map) Clear() {
	m.mu.Lock()
	defer m.mu.Unlock()
	m.m = nil
}

func (m *Map) Range(f func(key, value any) bool) {
	m.mu.Lock()
	type kv struct {
		k, v any
		s    string
	}
	items := make([]kv, 0, len(m.m))
	for k, v := range m.m {
		items = append(items, kv{k, v, fmt.Sprint(k)})
	}
	m.mu.Unlock()
	sort.Slice(items, func(i, j int) bool { return items[i].s < items[j].s })
	for _, it := range items {
		if !f(it.k, it.v) {
			return
		}
	}
}

// OnceFunc and friends are forwarded.
func OnceFunc(f func()) func() { return sync.OnceFunc(f) }
