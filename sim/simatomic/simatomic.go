// Package simatomic replaces sync/atomic in the instrumented copy of kevo:
// the real atomics (same memory layout) plus a scheduling point before each
// operation.
package simatomic

import (
	"sync/atomic"
	"unsafe"

	"github.com/KevoDB/kevo/zsim/simrt"
)

const cAtomic = simrt.CAtomic

func y() { simrt.Yield(cAtomic) }

type Bool struct{ v atomic.Bool }

func (x *Bool) Load() bool                        { y(); return x.v.Load() }
func (x *Bool) Store(val bool)                    { y(); x.v.Store(val) }
func (x *Bool) Swap(new bool) bool                { y(); return x.v.Swap(new) }
func (x *Bool) CompareAndSwap(old, new bool) bool { y(); return x.v.CompareAndSwap(old, new) }

type Int32 struct{ v atomic.Int32 }

func (x *Int32) Load() int32                        { y(); return x.v.Load() }
func (x *Int32) Store(val int32)                    { y(); x.v.Store(val) }
func (x *Int32) Swap(new int32) int32               { y(); return x.v.Swap(new) }
func (x *Int32) CompareAndSwap(old, new int32) bool { y(); return x.v.CompareAndSwap(old, new) }
func (x *Int32) Add(d int32) int32                  { y(); return x.v.Add(d) }

type Int64 struct{ v atomic.Int64 }

func (x *Int64) Load() int64                        { y(); return x.v.Load() }
func (x *Int64) Store(val int64)                    { y(); x.v.Store(val) }
func (x *Int64) Swap(new int64) int64               { y(); return x.v.Swap(new) }
func (x *Int64) CompareAndSwap(old, new int64) bool { y(); return x.v.CompareAndSwap(old, new) }
func (x *Int64) Add(d int64) int64                  { y(); return x.v.Add(d) }

type Uint32 struct{ v atomic.Uint32 }

func (x *Uint32) Load() uint32                        { y(); return x.v.Load() }
func (x *Uint32) Store(val uint32)                    { y(); x.v.Store(val) }
func (x *Uint32) Swap(new uint32) uint32              { y(); return x.v.Swap(new) }
func (x *Uint32) CompareAndSwap(old, new uint32) bool { y(); return x.v.CompareAndSwap(old, new) }
func (x *Uint32) Add(d uint32) uint32                 { y(); return x.v.Add(d) }

type Uint64 struct{ v atomic.Uint64 }

func (x *Uint64) Load() uint64                        { y(); return x.v.Load() }
func (x *Uint64) Store(val uint64)                    { y(); x.v.Store(val) }
func (x *Uint64) Swap(new uint64) uint64              { y(); return x.v.Swap(new) }
func (x *Uint64) CompareAndSwap(old, new uint64) bool { y(); return x.v.CompareAndSwap(old, new) }
func (x *Uint64) Add(d uint64) uint64                 { y(); return x.v.Add(d) }

type Uintptr struct{ v atomic.Uintptr }

func (x *Uintptr) Load() uintptr     { y(); return x.v.Load() }
func (x *Uintptr) Store(val uintptr) { y(); x.v.Store(val) }

type Pointer[T any] struct{ v atomic.Pointer[T] }

func (x *Pointer[T]) Load() *T                        { y(); return x.v.Load() }
func (x *Pointer[T]) Store(val *T)                    { y(); x.v.Store(val) }
func (x *Pointer[T]) Swap(new *T) *T                  { y(); return x.v.Swap(new) }
func (x *Pointer[T]) CompareAndSwap(old, new *T) bool { y(); return x.v.CompareAndSwap(old, new) }

type Value struct{ v atomic.Value }

func (x *Value) Load() any                        { y(); return x.v.Load() }
func (x *Value) Store(val any)                    { y(); x.v.Store(val) }
func (x *Value) Swap(new any) any                 { y(); return x.v.Swap(new) }
func (x *Value) CompareAndSwap(old, new any) bool { y(); return x.v.CompareAndSwap(old, new) }

func AddInt32(p *int32, d int32) int32              { y(); return atomic.AddInt32(p, d) }
func AddInt64(p *int64, d int64) int64              { y(); return atomic.AddInt64(p, d) }
func AddUint32(p *uint32, d uint32) uint32          { y(); return atomic.AddUint32(p, d) }
func AddUint64(p *uint64, d uint64) uint64          { y(); return atomic.AddUint64(p, d) }
func LoadInt32(p *int32) int32                      { y(); return atomic.LoadInt32(p) }
func LoadInt64(p *int64) int64                      { y(); return atomic.LoadInt64(p) }
func LoadUint32(p *uint32) uint32                   { y(); return atomic.LoadUint32(p) }
func LoadUint64(p *uint64) uint64                   { y(); return atomic.LoadUint64(p) }
func LoadUintptr(p *uintptr) uintptr                { y(); return atomic.LoadUintptr(p) }
func StoreInt32(p *int32, v int32)                  { y(); atomic.StoreInt32(p, v) }
func StoreInt64(p *int64, v int64)                  { y(); atomic.StoreInt64(p, v) }
func StoreUint32(p *uint32, v uint32)               { y(); atomic.StoreUint32(p, v) }
func StoreUint64(p *uint64, v uint64)               { y(); atomic.StoreUint64(p, v) }
func StoreUintptr(p *uintptr, v uintptr)            { y(); atomic.StoreUintptr(p, v) }
func SwapInt32(p *int32, v int32) int32             { y(); return atomic.SwapInt32(p, v) }
func SwapInt64(p *int64, v int64) int64             { y(); return atomic.SwapInt64(p, v) }
func SwapUint32(p *uint32, v uint32) uint32         { y(); return atomic.SwapUint32(p, v) }
func SwapUint64(p *uint64, v uint64) uint64         { y(); return atomic.SwapUint64(p, v) }
func CompareAndSwapInt32(p *int32, o, n int32) bool { y(); return atomic.CompareAndSwapInt32(p, o, n) }
func CompareAndSwapInt64(p *int64, o, n int64) bool { y(); return atomic.CompareAndSwapInt64(p, o, n) }
func CompareAndSwapUint32(p *uint32, o, n uint32) bool {
	y()
	return atomic.CompareAndSwapUint32(p, o, n)
}
func CompareAndSwapUint64(p *uint64, o, n uint64) bool {
	y()
	return atomic.CompareAndSwapUint64(p, o, n)
}

func LoadPointer(p *unsafe.Pointer) unsafe.Pointer     { y(); return atomic.LoadPointer(p) }
func StorePointer(p *unsafe.Pointer, v unsafe.Pointer) { y(); atomic.StorePointer(p, v) }
func SwapPointer(p *unsafe.Pointer, v unsafe.Pointer) unsafe.Pointer {
	y()
	return atomic.SwapPointer(p, v)
}
func CompareAndSwapPointer(p *unsafe.Pointer, o, n unsafe.Pointer) bool {
	y()
	return atomic.CompareAndSwapPointer(p, o, n)
}
