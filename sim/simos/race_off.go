//go:build !race

package simos

const raceBuild = false
