package simos

import (
	"fmt"
	"hash/fnv"
	"path"
	"sort"
	"strings"
)

// Image is a detached copy of one node's subtree (files with their volatile
// image and durable extent, and directories).
type Image struct {
	Node  string
	Files map[string]*ImgFile
	Dirs  map[string]bool
}

type ImgFile struct {
	Data      []byte // volatile image (shared, treat as read-only)
	SyncedLen int
	Shadow    []byte
	HasShadow bool
}

func under(p, node string) bool {
	pre := "/" + node
	return p == pre || strings.HasPrefix(p, pre+"/")
}

// Snapshot copies the subtree of a node. File contents are shared
// copy-on-write with the live file system.
func (f *FS) Snapshot(node string) *Image {
	img := &Image{Node: node, Files: map[string]*ImgFile{}, Dirs: map[string]bool{}}
	for _, p := range f.files.keysCopy() {
		ino, _ := f.files.get(p)
		if under(p, node) {
			ino.shared = true
			img.Files[p] = &ImgFile{Data: ino.data[:len(ino.data):len(ino.data)], SyncedLen: ino.syncedLen, Shadow: ino.shadow, HasShadow: ino.hasShadow}
		}
	}
	for _, d := range f.dirs.keysCopy() {
		if under(d, node) {
			img.Dirs[d] = true
		}
	}
	return img
}

// Clone returns an independent copy of the image (contents still shared read-only).
func (img *Image) Clone() *Image {
	c := &Image{Node: img.Node, Files: make(map[string]*ImgFile, len(img.Files)), Dirs: make(map[string]bool, len(img.Dirs))}
	for p, fl := range img.Files {
		cp := *fl
		c.Files[p] = &cp
	}
	for d := range img.Dirs {
		c.Dirs[d] = true
	}
	return c
}

// Mount replaces the node's subtree with the image and starts a new
// incarnation (handles of earlier incarnations become stale).
func (f *FS) Mount(img *Image) int {
	node := img.Node
	for _, p := range f.files.keysCopy() {
		ino, _ := f.files.get(p)
		if under(p, node) {
			ino.nlink = 0
			f.files.del(p)
		}
	}
	for _, d := range f.dirs.keysCopy() {
		if under(d, node) {
			f.dirs.del(d)
		}
	}
	for p, fl := range img.Files {
		f.files.set(p, &inode{data: fl.Data[:len(fl.Data):len(fl.Data)], shared: true, syncedLen: fl.SyncedLen, shadow: fl.Shadow, hasShadow: fl.HasShadow, mtime: now(), nlink: 1})
	}
	for d := range img.Dirs {
		f.dirs.set(d, true)
	}
	n := f.Node(node)
	n.Gen++
	n.Crashed = false
	n.CrashAt = 0
	return n.Gen
}

// ApplyOp applies a recorded state-changing op to the image; for writes only
// the first tornK bytes if tornK >= 0.
func (img *Image) ApplyOp(op *Op, tornK int) {
	switch op.Kind {
	case OpCreate:
		img.Files[op.Path] = &ImgFile{}
	case OpWrite:
		fl := img.Files[op.Path]
		if fl == nil {
			return
		}
		data := op.Data
		if tornK >= 0 && tornK < len(data) {
			data = data[:tornK]
		}
		off := int(op.Off)
		if off < fl.SyncedLen && !fl.HasShadow {
			fl.Shadow = append([]byte(nil), fl.Data[:fl.SyncedLen]...)
			fl.HasShadow = true
		}
		nd := make([]byte, max(len(fl.Data), off+len(data)))
		copy(nd, fl.Data)
		copy(nd[off:], data)
		fl.Data = nd
	case OpSync:
		if fl := img.Files[op.Path]; fl != nil {
			fl.SyncedLen = len(fl.Data)
			fl.Shadow, fl.HasShadow = nil, false
		}
	case OpRename:
		if fl, ok := img.Files[op.Path]; ok {
			delete(img.Files, op.Path)
			img.Files[op.Path2] = fl
		} else if img.Dirs[op.Path] {
			pre := op.Path + "/"
			for q, fl := range img.Files {
				if strings.HasPrefix(q, pre) {
					delete(img.Files, q)
					img.Files[op.Path2+"/"+q[len(pre):]] = fl
				}
			}
			for q := range img.Dirs {
				if q == op.Path || strings.HasPrefix(q, pre) {
					delete(img.Dirs, q)
					img.Dirs[op.Path2+q[len(op.Path):]] = true
				}
			}
		}
	case OpRemove:
		delete(img.Files, op.Path)
		delete(img.Dirs, op.Path)
	case OpMkdir:
		for q := op.Path; q != "/" && q != "."; q = path.Dir(q) {
			img.Dirs[q] = true
		}
	case OpTruncate:
		if fl := img.Files[op.Path]; fl != nil {
			n := int(op.Off)
			if n < fl.SyncedLen && !fl.HasShadow {
				fl.Shadow = append([]byte(nil), fl.Data[:fl.SyncedLen]...)
				fl.HasShadow = true
			}
			if n <= len(fl.Data) {
				fl.Data = fl.Data[:n:n]
			}
		}
	}
}

// PowerLoss turns the image into what survives a power cut under the
// data-only model: every file reverts to its durable extent plus a prefix of
// the bytes appended since (chosen by pick(n) in [0,n]); files whose synced
// bytes were rewritten revert to the shadow copy or keep the new content.
// Directory operations are durable; files for which durable(path) is true are
// left untouched. Returns the number of files that lost bytes.
func (img *Image) PowerLoss(pick func(n int) int, durable func(path string) bool) int {
	lost := 0
	paths := img.Paths()
	for _, p := range paths {
		fl := img.Files[p]
		if durable != nil && durable(p) {
			continue
		}
		if fl.HasShadow {
			if pick(1) == 0 {
				fl.Data = fl.Shadow
				lost++
			}
			fl.Shadow, fl.HasShadow = nil, false
			fl.SyncedLen = len(fl.Data)
			continue
		}
		extra := len(fl.Data) - fl.SyncedLen
		if extra > 0 {
			k := pick(extra)
			if k < extra {
				lost++
			}
			fl.Data = fl.Data[: fl.SyncedLen+k : fl.SyncedLen+k]
		}
		fl.SyncedLen = len(fl.Data)
	}
	return lost
}

func (img *Image) Paths() []string {
	out := make([]string, 0, len(img.Files))
	for p := range img.Files {
		out = append(out, p)
	}
	sort.Strings(out)
	return out
}

// Glob returns the image's file paths that have the given suffix, sorted.
func (img *Image) WithSuffix(suffix string) []string {
	var out []string
	for _, p := range img.Paths() {
		if strings.HasSuffix(p, suffix) {
			out = append(out, p)
		}
	}
	return out
}

func (img *Image) Truncate(p string, n int) {
	fl := img.Files[p]
	if fl == nil || n > len(fl.Data) {
		return
	}
	fl.Data = fl.Data[:n:n]
	if fl.SyncedLen > n {
		fl.SyncedLen = n
	}
}

// SetByte overwrites one byte (copying the content first).
func (img *Image) SetByte(p string, i int, v byte) {
	fl := img.Files[p]
	if fl == nil || i >= len(fl.Data) {
		return
	}
	nd := append([]byte(nil), fl.Data...)
	nd[i] = v
	fl.Data = nd
}

// Append adds bytes behind the content (copying the content first).
func (img *Image) Append(p string, b []byte) {
	fl := img.Files[p]
	if fl == nil {
		return
	}
	nd := append([]byte(nil), fl.Data...)
	fl.Data = append(nd, b...)
	fl.SyncedLen = len(fl.Data)
}

func (img *Image) Size(p string) int {
	if fl := img.Files[p]; fl != nil {
		return len(fl.Data)
	}
	return -1
}

// Hash identifies the image content.
func (img *Image) Hash() uint64 {
	h := fnv.New64a()
	for _, p := range img.Paths() {
		fl := img.Files[p]
		fmt.Fprintf(h, "%s:%d:", p, len(fl.Data))
		h.Write(fl.Data)
	}
	ds := make([]string, 0, len(img.Dirs))
	for d := range img.Dirs {
		ds = append(ds, d)
	}
	sort.Strings(ds)
	for _, d := range ds {
		fmt.Fprintf(h, "d:%s;", d)
	}
	return h.Sum64()
}

// DescribeHex makes Describe include the content of small log files.
var DescribeHex bool

// Describe lists files and sizes.
func (img *Image) Describe() string {
	var b strings.Builder
	for _, p := range img.Paths() {
		fl := img.Files[p]
		fmt.Fprintf(&b, "%s len=%d synced=%d\n", p, len(fl.Data), fl.SyncedLen)
		if DescribeHex && len(fl.Data) > 0 && len(fl.Data) <= 400 && strings.HasSuffix(p, ".wal") {
			fmt.Fprintf(&b, "   %x\n", fl.Data)
		}
	}
	return b.String()
}

// ReadFileRaw returns the volatile content of a live file (harness use, no faults).
func (f *FS) ReadFileRaw(p string) ([]byte, bool) {
	ino, ok := f.files.get(clean(p))
	if !ok {
		return nil, false
	}
	return ino.data, true
}

// ListRaw returns the live file paths under a prefix, sorted (harness use).
func (f *FS) ListRaw(prefix string) []string {
	var out []string
	for _, p := range f.files.keysCopy() {
		if strings.HasPrefix(p, prefix) {
			out = append(out, p)
		}
	}
	sort.Strings(out)
	return out
}
