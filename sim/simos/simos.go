// Package simos replaces package os in the instrumented copy of kevo with an
// in-memory, crashable, fault-injecting file system.
//
// The tree is partitioned into nodes by the first path component ("/n1/...").
// Each regular file has a volatile image (what reads see; the page cache) and a
// durable extent (as of the last successful Sync). Every state-changing call
// is an I/O point: a scheduling point, a possible error, and a possible crash
// point of its node.
package simos

import (
	"errors"
	"fmt"
	"io"
	"io/fs"
	realos "os"
	"path"
	"sort"
	"strings"
	"syscall"
	"time"

	"github.com/KevoDB/kevo/zsim/simrt"
)

// ---- forwarded symbols
type FileMode = fs.FileMode
type FileInfo = fs.FileInfo
type DirEntry = fs.DirEntry
type PathError = fs.PathError
type Signal = realos.Signal

var (
	ErrNotExist   = fs.ErrNotExist
	ErrExist      = fs.ErrExist
	ErrClosed     = fs.ErrClosed
	ErrPermission = fs.ErrPermission
	ErrInvalid    = fs.ErrInvalid
	Stdout        = realos.Stdout
	Stderr        = realos.Stderr
	Stdin         = realos.Stdin
	Args          = realos.Args
	Interrupt     = realos.Interrupt
)

const (
	O_RDONLY = realos.O_RDONLY
	O_WRONLY = realos.O_WRONLY
	O_RDWR   = realos.O_RDWR
	O_APPEND = realos.O_APPEND
	O_CREATE = realos.O_CREATE
	O_EXCL   = realos.O_EXCL
	O_SYNC   = realos.O_SYNC
	O_TRUNC  = realos.O_TRUNC

	SEEK_SET = 0
	SEEK_CUR = 1
	SEEK_END = 2

	ModePerm      = fs.ModePerm
	ModeDir       = fs.ModeDir
	PathSeparator = '/'
)

func Exit(code int)                     { realos.Exit(code) }
func Getenv(k string) string            { return realos.Getenv(k) }
func Getpid() int                       { return 4242 }
func Hostname() (string, error)         { return "simhost", nil }
func IsNotExist(err error) bool         { return errors.Is(err, fs.ErrNotExist) }
func IsExist(err error) bool            { return errors.Is(err, fs.ErrExist) }
func IsPermission(err error) bool       { return errors.Is(err, fs.ErrPermission) }
func TempDir() string                   { return "/tmp" }
func LookupEnv(k string) (string, bool) { return realos.LookupEnv(k) }

// ErrCrashed is returned by every operation of a stopped incarnation.
var ErrCrashed = errors.New("simos: node incarnation has crashed (disk frozen)")

// ---- fault kinds
const (
	OpCreate = iota
	OpWrite
	OpSync
	OpRename
	OpRemove
	OpMkdir
	OpTruncate
	OpRead
	NOp
)

var OpNames = [NOp]string{"create", "write", "sync", "rename", "remove", "mkdir", "truncate", "read"}

// Crash modes.
const (
	CrashBefore = iota // the I/O point has no effect
	CrashAfter         // the I/O point takes full effect, then the process stops
	CrashTorn          // (writes) the first TornK bytes reach the volatile image
)

// ErrPoint injects an error at a given I/O index of a node.
type ErrPoint struct {
	Idx int64
	Err error
}

func (n *Node) errAt(idx int64) (error, bool) {
	for _, e := range n.ErrAt {
		if e.Idx == idx {
			return e.Err, true
		}
	}
	return nil, false
}

// Op describes a state-changing call at an I/O point.
type Op struct {
	Kind  int
	Path  string
	Path2 string // rename target
	Off   int64
	Data  []byte // write payload (not copied; valid during the hook only)
}

type inode struct {
	data      []byte
	shared    bool   // data may be aliased by a snapshot: copy before in-place change
	syncedLen int    // durable extent (append-only view)
	shadow    []byte // durable image if bytes below syncedLen were modified since the last sync
	hasShadow bool
	mtime     time.Time
	nlink     int
}

// Node is the per-process fault and crash state.
type Node struct {
	Name      string
	Gen       int
	IOCount   int64 // I/O points executed by the current run (all incarnations)
	CrashAt   int64 // crash when IOCount == CrashAt (0 = never); index of first point is 1
	CrashMode int
	TornFrac  float64
	Crashed   bool          // set when the crash fired; cleared by Mount/Restart
	ErrAt     []ErrPoint    // explicit error at I/O index
	FailNext  [NOp]int      // fail the next n operations of a kind (EIO)
	ErrRate   [NOp]float64  // seeded error probability per kind
	ShortRead float64       // probability of a short read
	Latency   time.Duration // max virtual latency per I/O point (0 = none)
	// BeforePoint is called before a state-changing op is applied (snapshots).
	BeforePoint func(n *Node, idx int64, op *Op)
	// OnCrash is called right after the crash fired, before tasks are killed.
	OnCrash func(n *Node, idx int64, op *Op)
	Stats   Stats
}

type Stats struct {
	Ops       [NOp]int64
	ErrFired  [NOp]int64
	ShortRead int64
	Crashes   int64
	Torn      int64
}

type FS struct {
	files   pmap[*inode]
	dirs    pmap[bool]
	nodes   pmap[*Node]
	tmpSeq  int
	created int
}

var cur *FS

// Trace echoes renames and removals into the verbose trace (KEVOSIM_ECHO=1).
var Trace = realos.Getenv("KEVOSIM_ECHO") != ""

func NewFS() *FS {
	f := &FS{}
	f.dirs.set("/", true)
	f.dirs.set("/tmp", true)
	return f
}

// Install makes f the file system seen by instrumented code.
func Install(f *FS) { cur = f }
func Current() *FS  { return cur }

func nodeOf(p string) string {
	if len(p) < 2 || p[0] != '/' {
		return ""
	}
	rest := p[1:]
	if i := strings.IndexByte(rest, '/'); i >= 0 {
		return rest[:i]
	}
	return rest
}

func (f *FS) Node(name string) *Node {
	n, _ := f.nodes.get(name)
	if n == nil {
		n = &Node{Name: name, Gen: 1}
		f.nodes.set(name, n)
	}
	return n
}

func clean(p string) string {
	if p == "" {
		return "."
	}
	if p[0] != '/' {
		p = "/cwd/" + p
	}
	return path.Clean(p)
}

func now() time.Time { return simrt.TimeNow() }

func perr(op, p string, err error) error {
	if debugErrs {
		fmt.Fprintf(realos.Stderr, "simos error: %s %s: %v\n", op, p, err)
	}
	return &fs.PathError{Op: op, Path: p, Err: err}
}

var debugErrs = realos.Getenv("KEVOSIM_DEBUG") != ""

// staleTask reports whether the calling task belongs to a stopped incarnation of node.
func (f *FS) staleTask(node string) bool {
	tn, tg := simrt.Tag()
	if tn == "" {
		return false
	}
	n, _ := f.nodes.get(tn)
	if n == nil {
		return false
	}
	return tg != n.Gen
}

// point runs the I/O-point protocol for a state-changing op. It returns
// (apply, tornBytes, err): apply=false means the op must not change state.
func (f *FS) point(op *Op) (apply bool, torn int, err error) {
	simrt.Yield(simrt.CIO)
	name := nodeOf(op.Path)
	if f.staleTask(name) {
		return false, -1, ErrCrashed
	}
	n := f.Node(name)
	n.IOCount++
	idx := n.IOCount
	n.Stats.Ops[op.Kind]++
	if n.Latency > 0 && simrt.Cur() != nil {
		d := time.Duration(simrt.Intn(int(n.Latency))) + 1
		simrt.Sleep(d)
		if f.staleTask(name) {
			return false, -1, ErrCrashed
		}
	}
	if n.BeforePoint != nil {
		n.BeforePoint(n, idx, op)
	}
	if n.CrashAt != 0 && idx == n.CrashAt {
		mode := n.CrashMode
		if mode == CrashTorn && op.Kind != OpWrite {
			mode = CrashBefore
		}
		switch mode {
		case CrashBefore:
			f.crash(n, idx, op)
			return false, -1, ErrCrashed
		case CrashTorn:
			k := int(n.TornFrac * float64(len(op.Data)))
			if k >= len(op.Data) {
				k = len(op.Data) - 1
			}
			if k < 0 {
				k = 0
			}
			n.Stats.Torn++
			return true, k, errCrashAfter
		default:
			return true, -1, errCrashAfter
		}
	}
	if n.FailNext[op.Kind] > 0 {
		n.FailNext[op.Kind]--
		n.Stats.ErrFired[op.Kind]++
		simrt.Note("io-error %s %s #%d (armed)", OpNames[op.Kind], op.Path, idx)
		return false, -1, syscall.EIO
	}
	if e, ok := n.errAt(idx); ok {
		n.Stats.ErrFired[op.Kind]++
		simrt.Note("io-error %s %s #%d", OpNames[op.Kind], op.Path, idx)
		return false, -1, e
	}
	if r := n.ErrRate[op.Kind]; r > 0 && simrt.Float() < r {
		n.Stats.ErrFired[op.Kind]++
		simrt.Note("io-error %s %s #%d", OpNames[op.Kind], op.Path, idx)
		e := error(syscall.EIO)
		if op.Kind == OpWrite && simrt.Intn(2) == 0 {
			e = syscall.ENOSPC
		}
		return false, -1, e
	}
	return true, -1, nil
}

var errCrashAfter = errors.New("crash-after")

// finish completes the I/O point protocol after the op was applied.
func (f *FS) finish(op *Op, perr error) error {
	if perr == errCrashAfter {
		n := f.Node(nodeOf(op.Path))
		f.crash(n, n.IOCount, op)
		return ErrCrashed
	}
	return perr
}

func (f *FS) crash(n *Node, idx int64, op *Op) {
	n.Crashed = true
	n.Stats.Crashes++
	old := n.Gen
	n.Gen++
	simrt.Note("CRASH node=%s at io#%d %s %s", n.Name, idx, OpNames[op.Kind], op.Path)
	if n.OnCrash != nil {
		n.OnCrash(n, idx, op)
	}
	simrt.KillTagged(n.Name, old)
	simrt.ExitIfDying()
}

// CrashNow stops the node's current incarnation from the outside (harness).
func (f *FS) CrashNow(name string) {
	n := f.Node(name)
	n.Crashed = true
	n.Stats.Crashes++
	old := n.Gen
	n.Gen++
	simrt.Note("CRASH node=%s (external)", n.Name)
	simrt.KillTagged(n.Name, old)
}

// Restart begins a new incarnation of a node (after a clean stop): stale handles die.
func (f *FS) Restart(name string) int {
	n := f.Node(name)
	n.Gen++
	n.Crashed = false
	n.CrashAt = 0
	return n.Gen
}

// ------------------------------------------------------------ path operations

func (f *FS) parentExists(p string) bool { return f.dirs.has(path.Dir(p)) }

func MkdirAll(p string, perm FileMode) error {
	f := cur
	p = clean(p)
	if f.dirs.has(p) {
		simrt.Yield(simrt.CIO)
		if f.staleTask(nodeOf(p)) {
			return perr("mkdir", p, ErrCrashed)
		}
		return nil
	}
	if _, ok := f.files.get(p); ok {
		return perr("mkdir", p, syscall.ENOTDIR)
	}
	op := &Op{Kind: OpMkdir, Path: p}
	apply, _, err := f.point(op)
	if apply {
		for q := p; q != "/" && q != "."; q = path.Dir(q) {
			f.dirs.set(q, true)
		}
	}
	if err = f.finish(op, err); err != nil {
		return perr("mkdir", p, err)
	}
	return nil
}

func Mkdir(p string, perm FileMode) error {
	f := cur
	p = clean(p)
	if f.dirs.has(p) {
		return perr("mkdir", p, fs.ErrExist)
	}
	if !f.parentExists(p) {
		return perr("mkdir", p, fs.ErrNotExist)
	}
	return MkdirAll(p, perm)
}

type fileInfo struct {
	name  string
	size  int64
	dir   bool
	mtime time.Time
}

func (i fileInfo) Name() string { return i.name }
func (i fileInfo) Size() int64  { return i.size }
func (i fileInfo) Mode() FileMode {
	if i.dir {
		return fs.ModeDir | 0755
	}
	return 0644
}
func (i fileInfo) ModTime() time.Time         { return i.mtime }
func (i fileInfo) IsDir() bool                { return i.dir }
func (i fileInfo) Sys() any                   { return nil }
func (i fileInfo) Type() FileMode             { return i.Mode().Type() }
func (i fileInfo) Info() (fs.FileInfo, error) { return i, nil }

func Stat(p string) (FileInfo, error) {
	f := cur
	p = clean(p)
	simrt.Yield(simrt.CIO)
	if f.staleTask(nodeOf(p)) {
		return nil, perr("stat", p, ErrCrashed)
	}
	if ino, ok := f.files.get(p); ok {
		return fileInfo{name: path.Base(p), size: int64(len(ino.data)), mtime: ino.mtime}, nil
	}
	if f.dirs.has(p) {
		return fileInfo{name: path.Base(p), dir: true}, nil
	}
	return nil, perr("stat", p, fs.ErrNotExist)
}

func Lstat(p string) (FileInfo, error) { return Stat(p) }

func ReadDir(p string) ([]DirEntry, error) {
	f := cur
	p = clean(p)
	simrt.Yield(simrt.CIO)
	if f.staleTask(nodeOf(p)) {
		return nil, perr("open", p, ErrCrashed)
	}
	if !f.dirs.has(p) {
		return nil, perr("open", p, fs.ErrNotExist)
	}
	var out []DirEntry
	prefix := p
	if prefix != "/" {
		prefix += "/"
	}
	for _, q := range f.files.keysCopy() {
		ino, _ := f.files.get(q)
		if strings.HasPrefix(q, prefix) && !strings.Contains(q[len(prefix):], "/") {
			out = append(out, fileInfo{name: q[len(prefix):], size: int64(len(ino.data)), mtime: ino.mtime})
		}
	}
	for _, q := range f.dirs.keysCopy() {
		if q != p && strings.HasPrefix(q, prefix) && !strings.Contains(q[len(prefix):], "/") {
			out = append(out, fileInfo{name: q[len(prefix):], dir: true})
		}
	}
	sort.Slice(out, func(i, j int) bool { return out[i].Name() < out[j].Name() })
	return out, nil
}

func Rename(oldp, newp string) error {
	f := cur
	oldp, newp = clean(oldp), clean(newp)
	op := &Op{Kind: OpRename, Path: oldp, Path2: newp}
	_, isFile := f.files.get(oldp)
	if !isFile && !f.dirs.has(oldp) {
		simrt.Yield(simrt.CIO)
		return &realos.LinkError{Op: "rename", Old: oldp, New: newp, Err: fs.ErrNotExist}
	}
	if !f.parentExists(newp) {
		simrt.Yield(simrt.CIO)
		return &realos.LinkError{Op: "rename", Old: oldp, New: newp, Err: fs.ErrNotExist}
	}
	apply, _, err := f.point(op)
	if apply {
		f.applyRename(oldp, newp)
	}
	if err = f.finish(op, err); err != nil {
		return &realos.LinkError{Op: "rename", Old: oldp, New: newp, Err: err}
	}
	return nil
}

func (f *FS) applyRename(oldp, newp string) {
	if Trace {
		simrt.Printf("fs rename %s -> %s", oldp, newp)
	}
	if ino, ok := f.files.get(oldp); ok {
		if old, ok2 := f.files.get(newp); ok2 {
			old.nlink--
		}
		f.files.del(oldp)
		f.files.set(newp, ino)
		return
	}
	if f.dirs.has(oldp) {
		pre := oldp + "/"
		for _, q := range f.files.keysCopy() {
			ino, _ := f.files.get(q)
			if strings.HasPrefix(q, pre) {
				f.files.del(q)
				f.files.set(newp+"/"+q[len(pre):], ino)
			}
		}
		for _, q := range f.dirs.keysCopy() {
			if q == oldp || strings.HasPrefix(q, pre) {
				f.dirs.del(q)
				f.dirs.set(newp+q[len(oldp):], true)
			}
		}
	}
}

func Remove(p string) error {
	f := cur
	p = clean(p)
	if Trace {
		simrt.Printf("fs remove %s", p)
	}
	_, isFile := f.files.get(p)
	if !isFile && !f.dirs.has(p) {
		simrt.Yield(simrt.CIO)
		if f.staleTask(nodeOf(p)) {
			return perr("remove", p, ErrCrashed)
		}
		return perr("remove", p, fs.ErrNotExist)
	}
	if !isFile {
		pre := p + "/"
		for _, q := range f.files.keysCopy() {
			if strings.HasPrefix(q, pre) {
				return perr("remove", p, syscall.ENOTEMPTY)
			}
		}
		for _, q := range f.dirs.keysCopy() {
			if strings.HasPrefix(q, pre) {
				return perr("remove", p, syscall.ENOTEMPTY)
			}
		}
	}
	op := &Op{Kind: OpRemove, Path: p}
	apply, _, err := f.point(op)
	if apply {
		if isFile {
			if ino0, ok0 := f.files.get(p); ok0 {
				ino0.nlink--
			}
			f.files.del(p)
		} else {
			f.dirs.del(p)
		}
	}
	if err = f.finish(op, err); err != nil {
		return perr("remove", p, err)
	}
	return nil
}

func RemoveAll(p string) error {
	f := cur
	p = clean(p)
	op := &Op{Kind: OpRemove, Path: p}
	apply, _, err := f.point(op)
	if apply {
		pre := p + "/"
		for _, q := range f.files.keysCopy() {
			if q == p || strings.HasPrefix(q, pre) {
				f.files.del(q)
			}
		}
		for _, q := range f.dirs.keysCopy() {
			if q == p || strings.HasPrefix(q, pre) {
				f.dirs.del(q)
			}
		}
	}
	if err = f.finish(op, err); err != nil {
		return perr("removeall", p, err)
	}
	return nil
}

func ReadFile(p string) ([]byte, error) {
	fh, err := Open(p)
	if err != nil {
		return nil, err
	}
	defer fh.Close()
	return io.ReadAll(fh)
}

func WriteFile(p string, data []byte, perm FileMode) error {
	fh, err := OpenFile(p, O_WRONLY|O_CREATE|O_TRUNC, perm)
	if err != nil {
		return err
	}
	_, err = fh.Write(data)
	if err1 := fh.Close(); err1 != nil && err == nil {
		err = err1
	}
	return err
}

func Chtimes(p string, atime, mtime time.Time) error {
	f := cur
	p = clean(p)
	if ino, ok := f.files.get(p); ok {
		ino.mtime = mtime
		return nil
	}
	return perr("chtimes", p, fs.ErrNotExist)
}

func MkdirTemp(dir, pattern string) (string, error) {
	f := cur
	if dir == "" {
		dir = tmpDirForTask()
	}
	f.tmpSeq++
	name := strings.Replace(pattern, "*", fmt.Sprintf("%09d", f.tmpSeq), 1)
	if !strings.Contains(pattern, "*") {
		name = pattern + fmt.Sprintf("%09d", f.tmpSeq)
	}
	p := clean(dir + "/" + name)
	return p, MkdirAll(p, 0700)
}

func tmpDirForTask() string {
	if n, _ := simrt.Tag(); n != "" {
		return "/" + n + "/tmp"
	}
	return "/tmp"
}

func CreateTemp(dir, pattern string) (*File, error) {
	f := cur
	if dir == "" {
		dir = tmpDirForTask()
		if !f.dirs.has(dir) {
			// like a real /tmp: always present
			for q := dir; q != "/" && q != "."; q = path.Dir(q) {
				f.dirs.set(q, true)
			}
		}
	}
	f.tmpSeq++
	name := strings.Replace(pattern, "*", fmt.Sprintf("%09d", f.tmpSeq), 1)
	if !strings.Contains(pattern, "*") {
		name = pattern + fmt.Sprintf("%09d", f.tmpSeq)
	}
	return OpenFile(dir+"/"+name, O_RDWR|O_CREATE|O_EXCL, 0600)
}

func Create(p string) (*File, error) { return OpenFile(p, O_RDWR|O_CREATE|O_TRUNC, 0666) }
func Open(p string) (*File, error)   { return OpenFile(p, O_RDONLY, 0) }

func OpenFile(p string, flag int, perm FileMode) (*File, error) {
	f := cur
	p = clean(p)
	name := nodeOf(p)
	ino, exists := f.files.get(p)
	if f.dirs.has(p) {
		simrt.Yield(simrt.CIO)
		if f.staleTask(name) {
			return nil, perr("open", p, ErrCrashed)
		}
		if flag&(O_WRONLY|O_RDWR) != 0 {
			return nil, perr("open", p, syscall.EISDIR)
		}
		return &File{fs: f, path: p, node: name, gen: f.Node(name).Gen, dir: true, flag: flag}, nil
	}
	if exists && flag&O_CREATE != 0 && flag&O_EXCL != 0 {
		simrt.Yield(simrt.CIO)
		return nil, perr("open", p, fs.ErrExist)
	}
	if !exists && flag&O_CREATE == 0 {
		simrt.Yield(simrt.CIO)
		if f.staleTask(name) {
			return nil, perr("open", p, ErrCrashed)
		}
		return nil, perr("open", p, fs.ErrNotExist)
	}
	if !exists && !f.parentExists(p) {
		simrt.Yield(simrt.CIO)
		return nil, perr("open", p, fs.ErrNotExist)
	}
	if !exists {
		op := &Op{Kind: OpCreate, Path: p}
		apply, _, err := f.point(op)
		if apply {
			ino = &inode{mtime: now(), nlink: 1}
			f.files.set(p, ino)
			f.created++
			// Creation moves the logical clock of instrumented code by 1µs: kevo
			// derives file names from time.Now().UnixNano() and a frozen virtual
			// clock would make two creations collide (simulator artefact).
			simrt.AdvanceSkew(time.Microsecond)
		}
		if err = f.finish(op, err); err != nil {
			return nil, perr("open", p, err)
		}
	} else if flag&O_TRUNC != 0 && len(ino.data) > 0 {
		op := &Op{Kind: OpTruncate, Path: p}
		apply, _, err := f.point(op)
		if apply {
			ino.truncate(0)
		}
		if err = f.finish(op, err); err != nil {
			return nil, perr("open", p, err)
		}
	} else {
		simrt.Yield(simrt.CIO)
		if f.staleTask(name) {
			return nil, perr("open", p, ErrCrashed)
		}
	}
	return &File{fs: f, path: p, ino: ino, node: name, gen: f.Node(name).Gen, flag: flag}, nil
}

func (ino *inode) saveShadow() {
	if !ino.hasShadow {
		ino.shadow = make([]byte, ino.syncedLen)
		memcopy(ino.shadow, ino.data[:ino.syncedLen])
		ino.hasShadow = true
	}
}

func (ino *inode) truncate(n int) {
	if n < ino.syncedLen {
		ino.saveShadow()
	}
	if n <= len(ino.data) {
		if ino.shared {
			nd := make([]byte, n)
			memcopy(nd, ino.data[:n])
			ino.data = nd
			ino.shared = false
		} else {
			ino.data = ino.data[:n]
		}
	} else {
		ino.writeAt(make([]byte, n-len(ino.data)), len(ino.data))
	}
	ino.mtime = now()
}

func (ino *inode) writeAt(p []byte, off int) {
	if off < ino.syncedLen {
		ino.saveShadow()
	}
	end := off + len(p)
	if ino.shared {
		nd := make([]byte, len(ino.data), max(end, len(ino.data))+len(p)+64)
		memcopy(nd, ino.data)
		ino.data = nd
		ino.shared = false
	}
	if off > len(ino.data) {
		nd := make([]byte, off, off+len(p)+64)
		memcopy(nd, ino.data)
		ino.data = nd
	}
	if end > len(ino.data) {
		if end > cap(ino.data) {
			nd := make([]byte, len(ino.data), end+end/4+64)
			memcopy(nd, ino.data)
			ino.data = nd
		}
		ino.data = ino.data[:end]
	}
	memcopy(ino.data[off:end], p)
	ino.mtime = now()
}

// ------------------------------------------------------------ File

type File struct {
	fs     *FS
	path   string
	ino    *inode
	node   string
	gen    int
	pos    int64
	flag   int
	closed bool
	dir    bool
}

func (fl *File) Name() string { return fl.path }
func (fl *File) Fd() uintptr  { return 99 }

func (fl *File) stale() bool {
	return fl.fs.Node(fl.node).Gen != fl.gen || fl.fs.staleTask(fl.node) || fl.fs != cur
}

func (fl *File) check(op string) error {
	if fl == nil {
		return fs.ErrInvalid
	}
	if fl.closed {
		return perr(op, fl.path, fs.ErrClosed)
	}
	if fl.stale() {
		return perr(op, fl.path, ErrCrashed)
	}
	return nil
}

func (fl *File) readFault(n int) (int, error) {
	nd := fl.fs.Node(fl.node)
	nd.Stats.Ops[OpRead]++
	if r := nd.ErrRate[OpRead]; r > 0 && simrt.Float() < r {
		nd.Stats.ErrFired[OpRead]++
		simrt.Note("io-error read %s", fl.path)
		return 0, syscall.EIO
	}
	if n > 1 && nd.ShortRead > 0 && simrt.Float() < nd.ShortRead {
		nd.Stats.ShortRead++
		return 1 + simrt.Intn(n-1), nil
	}
	return n, nil
}

func (fl *File) Read(p []byte) (int, error) {
	simrt.Yield(simrt.CIO)
	if err := fl.check("read"); err != nil {
		return 0, err
	}
	if fl.dir {
		return 0, perr("read", fl.path, syscall.EISDIR)
	}
	if len(p) == 0 {
		return 0, nil
	}
	if fl.pos >= int64(len(fl.ino.data)) {
		return 0, io.EOF
	}
	n := len(p)
	if rem := len(fl.ino.data) - int(fl.pos); n > rem {
		n = rem
	}
	n, err := fl.readFault(n)
	if err != nil {
		return 0, perr("read", fl.path, err)
	}
	memcopy(p[:n], fl.ino.data[fl.pos:int(fl.pos)+n])
	fl.pos += int64(n)
	return n, nil
}

func (fl *File) ReadAt(p []byte, off int64) (int, error) {
	simrt.Yield(simrt.CIO)
	if err := fl.check("read"); err != nil {
		return 0, err
	}
	if off < 0 {
		return 0, perr("readat", fl.path, errors.New("negative offset"))
	}
	// ReadAt must return a full buffer or an error (io.ReaderAt); short counts
	// are resolved internally as the real os.File does.
	nd := fl.fs.Node(fl.node)
	nd.Stats.Ops[OpRead]++
	if r := nd.ErrRate[OpRead]; r > 0 && simrt.Float() < r {
		nd.Stats.ErrFired[OpRead]++
		simrt.Note("io-error readat %s", fl.path)
		return 0, perr("read", fl.path, syscall.EIO)
	}
	if off >= int64(len(fl.ino.data)) {
		return 0, io.EOF
	}
	n := memcopy(p, fl.ino.data[off:])
	if n < len(p) {
		return n, io.EOF
	}
	return n, nil
}

func (fl *File) Write(p []byte) (int, error) {
	if err := fl.check("write"); err != nil {
		simrt.Yield(simrt.CIO)
		return 0, err
	}
	if fl.flag&(O_WRONLY|O_RDWR) == 0 {
		return 0, perr("write", fl.path, syscall.EBADF)
	}
	off := fl.pos
	if fl.flag&O_APPEND != 0 {
		off = int64(len(fl.ino.data))
	}
	return fl.write(p, off, true)
}

func (fl *File) WriteAt(p []byte, off int64) (int, error) {
	if err := fl.check("write"); err != nil {
		simrt.Yield(simrt.CIO)
		return 0, err
	}
	return fl.write(p, off, false)
}

func (fl *File) WriteString(s string) (int, error) { return fl.Write([]byte(s)) }

func (fl *File) write(p []byte, off int64, advance bool) (int, error) {
	if realos.Getenv("KEVOSIM_DEBUG") != "" {
		fmt.Fprintf(realos.Stderr, "simos.write %s off=%d n=%d\n", fl.path, off, len(p))
	}
	op := &Op{Kind: OpWrite, Path: fl.path, Off: off, Data: p}
	apply, torn, err := fl.fs.point(op)
	if fl.fs.Node(fl.node).Gen != fl.gen {
		return 0, perr("write", fl.path, ErrCrashed)
	}
	n := 0
	if apply {
		data := p
		if torn >= 0 {
			data = p[:torn]
		}
		if fl.flag&O_APPEND != 0 && advance {
			off = int64(len(fl.ino.data))
		}
		fl.ino.writeAt(data, int(off))
		n = len(data)
		if advance {
			fl.pos = off + int64(n)
		}
	}
	if err = fl.fs.finish(op, err); err != nil {
		return n, perr("write", fl.path, err)
	}
	return n, nil
}

func (fl *File) Seek(offset int64, whence int) (int64, error) {
	if err := fl.check("seek"); err != nil {
		return 0, err
	}
	switch whence {
	case 0:
		fl.pos = offset
	case 1:
		fl.pos += offset
	case 2:
		fl.pos = int64(len(fl.ino.data)) + offset
	}
	if fl.pos < 0 {
		fl.pos = 0
		return 0, perr("seek", fl.path, fs.ErrInvalid)
	}
	return fl.pos, nil
}

func (fl *File) Sync() error {
	if err := fl.check("sync"); err != nil {
		simrt.Yield(simrt.CIO)
		return err
	}
	if fl.dir {
		return nil
	}
	op := &Op{Kind: OpSync, Path: fl.path}
	apply, _, err := fl.fs.point(op)
	if fl.fs.Node(fl.node).Gen != fl.gen {
		return perr("sync", fl.path, ErrCrashed)
	}
	if apply {
		fl.ino.syncedLen = len(fl.ino.data)
		fl.ino.shadow = nil
		fl.ino.hasShadow = false
	}
	if err = fl.fs.finish(op, err); err != nil {
		return perr("sync", fl.path, err)
	}
	return nil
}

func (fl *File) Truncate(size int64) error {
	if err := fl.check("truncate"); err != nil {
		return err
	}
	op := &Op{Kind: OpTruncate, Path: fl.path, Off: size}
	apply, _, err := fl.fs.point(op)
	if fl.fs.Node(fl.node).Gen != fl.gen {
		return perr("truncate", fl.path, ErrCrashed)
	}
	if apply {
		fl.ino.truncate(int(size))
	}
	if err = fl.fs.finish(op, err); err != nil {
		return perr("truncate", fl.path, err)
	}
	return nil
}

func (fl *File) Close() error {
	simrt.Yield(simrt.CIO)
	if fl == nil {
		return fs.ErrInvalid
	}
	if fl.closed {
		return perr("close", fl.path, fs.ErrClosed)
	}
	fl.closed = true
	return nil
}

func (fl *File) Stat() (FileInfo, error) {
	if err := fl.check("stat"); err != nil {
		return nil, err
	}
	if fl.dir {
		return fileInfo{name: path.Base(fl.path), dir: true}, nil
	}
	return fileInfo{name: path.Base(fl.path), size: int64(len(fl.ino.data)), mtime: fl.ino.mtime}, nil
}

func (fl *File) ReadDir(n int) ([]DirEntry, error) { return ReadDir(fl.path) }

func (fl *File) Chmod(mode FileMode) error { return nil }

var _ io.ReadWriteCloser = (*File)(nil)
var _ io.ReaderAt = (*File)(nil)
var _ io.Seeker = (*File)(nil)
