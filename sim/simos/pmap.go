package simos

import "sort"

// pmap is a small sorted string-keyed map kept in slices. The simulated file
// system is shared by all tasks under the baton; Go's built-in maps report
// their accesses to the race detector from inside the runtime (a caller's
// //go:norace does not cover them), which would make every pair of tasks that
// touch the disk look like a data race. Slices accessed from //go:norace
// functions are invisible to the detector.
type pmap[V any] struct {
	keys []string
	vals []V
}

func (m *pmap[V]) find(k string) (int, bool) {
	i := sort.SearchStrings(m.keys, k)
	return i, i < len(m.keys) && m.keys[i] == k
}

func (m *pmap[V]) get(k string) (V, bool) {
	if i, ok := m.find(k); ok {
		return m.vals[i], true
	}
	var zero V
	return zero, false
}

func (m *pmap[V]) has(k string) bool {
	_, ok := m.find(k)
	return ok
}

func (m *pmap[V]) set(k string, v V) {
	i, ok := m.find(k)
	if ok {
		m.vals[i] = v
		return
	}
	m.keys = append(m.keys, "")
	m.vals = append(m.vals, v)
	for j := len(m.keys) - 1; j > i; j-- {
		m.keys[j] = m.keys[j-1]
		m.vals[j] = m.vals[j-1]
	}
	m.keys[i] = cloneStr(k)
	m.vals[i] = v
}

// cloneStr copies a string with uninstrumented stores. Paths travel through
// the simulated disk from the task that created a file to tasks that list the
// directory; the kernel would copy the bytes, and so must the simulator, or
// the race detector sees the reader touching memory the creator wrote.
func cloneStr(s string) string {
	b := make([]byte, len(s))
	for i := 0; i < len(s); i++ {
		b[i] = s[i]
	}
	return string(b)
}

func (m *pmap[V]) del(k string) {
	i, ok := m.find(k)
	if !ok {
		return
	}
	for j := i; j < len(m.keys)-1; j++ {
		m.keys[j] = m.keys[j+1]
		m.vals[j] = m.vals[j+1]
	}
	var zero V
	m.keys[len(m.keys)-1] = ""
	m.vals[len(m.vals)-1] = zero
	m.keys = m.keys[:len(m.keys)-1]
	m.vals = m.vals[:len(m.vals)-1]
}

// keysCopy returns the keys (sorted) in a fresh slice, safe to mutate the map while ranging.
func (m *pmap[V]) keysCopy() []string {
	out := make([]string, len(m.keys))
	for i, k := range m.keys {
		out[i] = k
	}
	return out
}

// memcopy copies bytes without going through the runtime's instrumented copy.
func memcopy(dst, src []byte) int {
	n := len(src)
	if len(dst) < n {
		n = len(dst)
	}
	if !raceBuild {
		return copy(dst, src)
	}
	for i := 0; i < n; i++ {
		dst[i] = src[i]
	}
	return n
}
