//go:build verif

package replication

import (
	"net"

	replication_proto "github.com/KevoDB/kevo/proto/kevo/replication"
)

// This file exists only in the instrumented scratch copy built by /verif/run.py.
// It gives the simulated transport the one thing a PrimaryConnector needs and
// cannot reach from outside the package: the replica's client field.

// VerifSetClient installs the service client a connector obtained. The caller
// is a PrimaryConnector invoked by connectToPrimary (no replica lock is held).
func (r *Replica) VerifSetClient(c replication_proto.WALReplicationServiceClient) {
	r.mu.Lock()
	r.client = c
	r.mu.Unlock()
}

// VerifHasClient reports whether a client is installed.
func (r *Replica) VerifHasClient() bool {
	r.mu.RLock()
	defer r.mu.RUnlock()
	return r.client != nil
}

// VerifExpectedNext is the applier's cursor.
func (r *Replica) VerifExpectedNext() uint64 { return r.batchApplier.GetExpectedNext() }

// VerifSessionCount is the number of sessions the primary tracks.
func (p *Primary) VerifSessionCount() int {
	p.mu.RLock()
	defer p.mu.RUnlock()
	return len(p.sessions)
}

// ---- seams used when replication.Manager itself runs in the simulation
// (tools/simrewrite substitutes three expressions; see applySeams)

// VerifNewConnector, when set, supplies the connector of every new Replica
// instead of DefaultPrimaryConnector (which dials a real socket).
var VerifNewConnector func() PrimaryConnector

func verifConnector() PrimaryConnector {
	if VerifNewConnector != nil {
		return VerifNewConnector()
	}
	return &DefaultPrimaryConnector{}
}

// VerifListen, when set, replaces net.Listen for the primary's gRPC server.
var VerifListen func(address string) (net.Listener, error)

func verifListen(address string) (net.Listener, error) {
	if VerifListen != nil {
		return VerifListen(address)
	}
	return net.Listen("tcp", address)
}

// VerifWrapApplier, when set, wraps the applier the manager hands to its replica.
var VerifWrapApplier func(listenAddr string, a WALEntryApplier) WALEntryApplier

func verifWrapApplier(listenAddr string, a *EngineApplier) WALEntryApplier {
	if VerifWrapApplier != nil {
		return VerifWrapApplier(listenAddr, a)
	}
	return a
}

// VerifPrimary / VerifReplica expose what Manager.Start created.
func (m *Manager) VerifPrimary() *Primary {
	m.mu.RLock()
	defer m.mu.RUnlock()
	return m.primary
}

func (m *Manager) VerifReplica() *Replica {
	m.mu.RLock()
	defer m.mu.RUnlock()
	return m.replica
}

// VerifListenerAddr is the replica's own listener address (identifies the node).
func (r *Replica) VerifListenerAddr() string { return r.config.ReplicationListenerAddr }

// VerifProcess hands a received stream response to the replica exactly as the
// streaming state (direct=true) or the waiting state (direct=false) does.
func (r *Replica) VerifProcess(response *replication_proto.WALStreamResponse, direct bool) error {
	if direct {
		return r.processEntriesWithoutStateTransitions(response)
	}
	if err := r.stateTracker.SetState(StateApplyingEntries); err != nil {
		// the waiting state enters APPLYING first; from other states go through the legal path
		r.stateTracker.ResetState()
		r.stateTracker.SetState(StateStreamingEntries)
		r.stateTracker.SetState(StateApplyingEntries)
	}
	err := r.processEntries(response)
	r.stateTracker.ResetState()
	r.stateTracker.SetState(StateStreamingEntries)
	return err
}
