//go:build verif

package replication

import (
	replication_proto "github.com/KevoDB/kevo/proto/kevo/replication"
)

// This file exists only in the instrumented scratch copy built by /verif/run.py.
// It gives the simulated transport the one thing a PrimaryConnector needs and
// cannot reach from outside the package: the replica's client field.

// VerifSetClient installs the service client a connector obtained. The caller
// is a PrimaryConnector invoked by connectToPrimary (no replica lock is held).
func (r *Replica) VerifSetClient(c replication_proto.WALReplicationServiceClient) {
	r.mu.Lock()
	r.client = c
	r.mu.Unlock()
}

// VerifHasClient reports whether a client is installed.
func (r *Replica) VerifHasClient() bool {
	r.mu.RLock()
	defer r.mu.RUnlock()
	return r.client != nil
}

// VerifExpectedNext is the applier's cursor.
func (r *Replica) VerifExpectedNext() uint64 { return r.batchApplier.GetExpectedNext() }

// VerifSessionCount is the number of sessions the primary tracks.
func (p *Primary) VerifSessionCount() int {
	p.mu.RLock()
	defer p.mu.RUnlock()
	return len(p.sessions)
}
