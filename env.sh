export GOFLAGS=-mod=mod GOPROXY=off GOSUMDB=off GOTOOLCHAIN=local
export PATH=/opt/veriftools/go1.26.8/bin:$PATH
