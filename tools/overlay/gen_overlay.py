#!/usr/bin/env python3
"""Generate the go1.26.8 runtime overlay used by every kevosim build.

Patches four files of the *installed* toolchain's runtime (copies, never in place):
  select.go : poll order of select drawn from simselectrandn
  rand.go   : runtime.rand() deterministic for bubble goroutines while simRandOn
  alg.go    : constant hash keys (map hashing identical across processes)
  zsim.go   : new; SimSetRand / SimGoid
Every anchor is verified; any mismatch exits 2 (toolchain differs)."""
import json, os, sys

GOROOT = "/opt/veriftools/go1.26.8"
OUT = sys.argv[1] if len(sys.argv) > 1 else "/verif/build/overlay"


def die(msg):
    sys.stderr.write("gen_overlay: " + msg + "\n")
    sys.exit(2)


def patch(src, edits):
    text = open(src).read()
    for anchor, repl in edits:
        if text.count(anchor) != 1:
            die("anchor not found exactly once in %s: %r (count=%d)" % (src, anchor, text.count(anchor)))
        text = text.replace(anchor, repl)
    return text


ZSIM = r'''package runtime

var simRandOn uint32
var simRandState uint64
var simSelState uint64
var simMapConst uint64

// SimSetRand turns deterministic select/map/math-rand randomness on (seed != 0)
// or off for goroutines that run inside a synctest bubble.
func SimSetRand(seed uint64) {
	simRandState = seed
	simSelState = seed ^ 0x2545f4914f6cdd1d
	// Map seeds and iteration offsets are one per-run constant, not draws from
	// the stream: how many maps library code creates or walks depends on
	// sync.Pool hits, i.e. on garbage collection timing, and must not shift
	// what math/rand returns to kevo.
	z := seed + 0x632be59bd9b4e019
	z = (z ^ (z >> 30)) * 0xbf58476d1ce4e5b9
	z = (z ^ (z >> 27)) * 0x94d049bb133111eb
	simMapConst = z ^ (z >> 31)
	if seed != 0 {
		simRandOn = 1
	} else {
		simRandOn = 0
	}
}

// SimGoid returns the id of the calling goroutine.
func SimGoid() uint64 {
	return getg().goid
}

//go:nosplit
func simnext() uint64 {
	simRandState += 0x9e3779b97f4a7c15
	z := simRandState
	z = (z ^ (z >> 30)) * 0xbf58476d1ce4e5b9
	z = (z ^ (z >> 27)) * 0x94d049bb133111eb
	return z ^ (z >> 31)
}

// select draws from its own stream, so that one-off rand() calls of lazily
// initialised library state do not shift the select choices of a run.
func simselectrandn(n uint32) uint32 {
	if simRandOn != 0 && getg().bubble != nil {
		simSelState += 0x9e3779b97f4a7c15
		z := simSelState
		z = (z ^ (z >> 30)) * 0xbf58476d1ce4e5b9
		z = (z ^ (z >> 27)) * 0x94d049bb133111eb
		return uint32((z ^ (z >> 31)) % uint64(n))
	}
	return cheaprandn(n)
}
'''


def main():
    rt = os.path.join(GOROOT, "src", "runtime")
    if not os.path.isdir(rt):
        die("toolchain not found at " + GOROOT)
    os.makedirs(OUT, exist_ok=True)
    files = {}
    files["select.go"] = patch(os.path.join(rt, "select.go"), [
        ("\t\tj := cheaprandn(uint32(norder + 1))\n", "\t\tj := simselectrandn(uint32(norder + 1))\n"),
    ])
    files["rand.go"] = patch(os.path.join(rt, "rand.go"), [
        ("func rand() uint64 {\n",
         "func rand() uint64 {\n\tif simRandOn != 0 {\n\t\tif getg().bubble != nil {\n\t\t\treturn simnext()\n\t\t}\n\t}\n"),
        ("func maps_rand() uint64 {\n",
         "func maps_rand() uint64 {\n\tif simRandOn != 0 {\n\t\tif getg().bubble != nil {\n\t\t\treturn simMapConst\n\t\t}\n\t}\n"),
    ])
    files["alg.go"] = patch(os.path.join(rt, "alg.go"), [
        ("\t\thashkey[i] = uintptr(bootstrapRand())\n",
         "\t\thashkey[i] = uintptr(bootstrapRand())\n\t\thashkey[i] = uintptr(0x9e3779b97f4a7c15 * uint64(i+1))\n"),
        ("\t\tkey[i] = bootstrapRand()\n",
         "\t\tkey[i] = bootstrapRand()\n\t\tkey[i] = 0x9e3779b97f4a7c15 * uint64(i+1)\n"),
    ])
    files["zsim.go"] = ZSIM
    replace = {}
    for name, text in files.items():
        p = os.path.join(OUT, name)
        old = open(p).read() if os.path.exists(p) else None
        if old != text:
            with open(p, "w") as f:
                f.write(text)
        replace[os.path.join(rt, name)] = p
    with open(os.path.join(OUT, "overlay.json"), "w") as f:
        json.dump({"Replace": replace}, f, indent=1)
    print("overlay written to", OUT)


if __name__ == "__main__":
    main()
