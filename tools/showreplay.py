#!/usr/bin/env python3
import json,sys,base64
def q(b):
    if b is None: return "nil"
    r=base64.b64decode(b)
    s=repr(r)[1:]
    return s if len(s)<30 else s[:26]+"…(%d)"%len(r)
def op(o):
    k=o["k"]
    if k=="put": return "put(%s,#%d/%d%s)"%(q(o.get("key")),o.get("tag",0),o.get("len",0),",nil" if o.get("nil") else "")
    if k in("del","get"): return "%s(%s)"%(k,q(o.get("key")))
    if k in("txn","batch"):
        fl="".join("+"+f for f in("scribble","abandon") if o.get(f))+("+failio%d"%o["fail_io"] if o.get("fail_io") else "")
        return "%s{%s}%s%s"%(k," ".join(op(x) for x in o.get("sub",[])), (" commit" if o.get("commit") else " rollback") if k=="txn" else "",fl)
    if k=="sleep": return "sleep(%d)"%o.get("d",0)
    if k in("crange","scan"): return "%s(%s,%s)"%(k,q(o.get("key")),q(o.get("end")))
    return k
def show(c,ind=" "):
    for k,v in c.items():
        if k=="sched": continue
        if k=="ops": print(ind+"ops:","; ".join(op(o) for o in v))
        elif isinstance(v,dict) and ("ops" in v or "sched" in v): print(ind+k+":"); show(v,ind+"  ")
        else: print(ind+"%s: %s"%(k,json.dumps(v)[:1500]))
for p in sys.argv[1:]:
    r=json.load(open(p))
    print("==",p)
    print(" sig:",r["violation"]["signature"])
    print(" detail:",r["violation"]["detail"][:900])
    show(r["case"])
    print(" min:",r.get("minimised"))
