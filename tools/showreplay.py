#!/usr/bin/env python3
import json,sys,base64
def q(b):
    if b is None: return "nil"
    r=base64.b64decode(b)
    s=repr(r)[1:]
    return s if len(s)<30 else s[:26]+"…(%d)"%len(r)
def op(o):
    k=o["k"]
    if k=="put": return "put(%s,#%d/%d%s)"%(q(o.get("key")),o.get("tag",0),o.get("len",0),",nil" if o.get("nil") else "")
    if k in("del","get"): return "%s(%s)"%(k,q(o.get("key")))
    if k in("txn","batch"): return "%s{%s}%s"%(k," ".join(op(x) for x in o.get("sub",[])), (" commit" if o.get("commit") else " rollback") if k=="txn" else "")
    if k=="sleep": return "sleep(%d)"%o.get("d",0)
    if k in("crange","scan"): return "%s(%s,%s)"%(k,q(o.get("key")),q(o.get("end")))
    return k
for p in sys.argv[1:]:
    r=json.load(open(p))
    c=r["case"]
    print("==",p)
    print(" sig:",r["violation"]["signature"])
    print(" detail:",r["violation"]["detail"][:600])
    print(" knobs:",c.get("knobs"))
    if "ops" in c: print(" ops:","; ".join(op(o) for o in c["ops"]))
    for k in c:
        if k not in("knobs","ops","sched"): print(" %s: %s"%(k,json.dumps(c[k])[:1500]))
    print(" min:",r.get("minimised"))
