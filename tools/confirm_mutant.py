#!/usr/bin/env python3
"""confirm_mutant.py <outdir> <worktree>: applies patch.diff in the scratch worktree, runs the
delivered demonstration tests there (expected: fail), restores the worktree and runs them again
(expected: pass). Prints CONFIRMED / NOT-CONFIRMED."""
import glob, os, re, subprocess, sys, shutil
out, wt = sys.argv[1], sys.argv[2]
PKG = {"engine": "pkg/engine", "storage": "pkg/engine/storage", "replication": "pkg/replication", "replication_test": "pkg/replication",
       "compaction": "pkg/compaction", "wal": "pkg/wal", "memtable": "pkg/memtable", "sstable": "pkg/sstable", "transaction": "pkg/transaction",
       "engine_test": "pkg/engine", "block": "pkg/sstable/block", "footer": "pkg/sstable/footer", "bloom_filter": "pkg/bloom_filter", "iterator": "pkg/engine/iterator", "common": "pkg/common", "stats": "pkg/stats", "service": "pkg/grpc/service", "config": "pkg/config"}
env = dict(os.environ, GOFLAGS="-mod=mod", GOPROXY="off")
for k in ("GOTOOLCHAIN", "GOSUMDB"):
    env.pop(k, None)
def sh(cmd, **kw):
    return subprocess.run(cmd, cwd=wt, env=env, capture_output=True, text=True, **kw)
def clean():
    sh(["git", "checkout", "--", "."]); sh(["git", "clean", "-fdq"])
def run_demos():
    placed = {}
    for f in glob.glob(os.path.join(out, "demo", "*_test.go")):
        src = open(f).read()
        m = re.search(r"^package (\w+)", src, re.M)
        d = PKG.get(m.group(1))
        if not d:
            # a stand-alone demonstration package
            d = os.path.join("zzdemo", m.group(1))
            os.makedirs(os.path.join(wt, d), exist_ok=True)
        shutil.copy(f, os.path.join(wt, d, os.path.basename(f)))
        names = re.findall(r"^func (Test\w+)\(", src, re.M)
        placed.setdefault(d, []).extend(names)
    res = {}
    for d, names in placed.items():
        r = sh(["go", "test", "-count=1", "-timeout", "600s", "-run", "^(" + "|".join(names) + ")$", "./" + d + "/"])
        res[d] = (r.returncode, (r.stdout + r.stderr)[-1500:])
    return res
clean()
r = sh(["git", "apply", os.path.join(out, "patch.diff")])
if r.returncode != 0:
    print("PATCH DOES NOT APPLY", r.stderr); sys.exit(2)
b = sh(["go", "build", "./..."])
if b.returncode != 0:
    print("DOES NOT BUILD", b.stderr[-800:]); clean(); sys.exit(2)
suite = sh(["go", "test", "-count=1", "-timeout", "900s", "./pkg/..."])
suite_fail = [l for l in (suite.stdout + suite.stderr).split("\n") if l.startswith("FAIL") or l.startswith("--- FAIL") or l.startswith("panic:")]
changed = run_demos()
clean()
base = run_demos()
clean()
fails_changed = any(rc != 0 for rc, _ in changed.values())
passes_base = all(rc == 0 for rc, _ in base.values()) and len(base) > 0
print("changed tree:", {d: rc for d, (rc, _) in changed.items()}, " unchanged tree:", {d: rc for d, (rc, _) in base.items()})
print("existing tests on the changed tree:", "all packages pass" if suite.returncode == 0 else "FAILURES " + "; ".join(suite_fail[:8]))
if fails_changed and passes_base and suite.returncode == 0:
    print("CONFIRMED", out)
else:
    print("NOT-CONFIRMED", out)
    for d, (rc, o) in list(changed.items()) + list(base.items()):
        print("---", d, rc); print(o[-600:])
