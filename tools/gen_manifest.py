#!/usr/bin/env python3
"""Writes MANIFEST.json from the table below (kept in one place so it stays valid)."""
import json, os
V = os.path.dirname(os.path.dirname(os.path.abspath(__file__)))
TECH = "deterministic simulation with fault injection (seeded baton scheduler in a synctest bubble, in-memory crashable disk, simulated stream transport), reference-model oracles"
CHECKS = {
 "C01": ("exploration", "4 (C01)", "seeded single-client programmes over the embedded API with the engine's background flush/compaction tasks scheduled by the simulator; every get, and a full scan + point gets at every reopen and at the end, compared byte-exactly with a reference map",
         "samples programmes/knobs/schedules; no injected faults; write errors that kevo itself reports count as no-effect"),
 "C02": ("fault_enumeration", "4 (C02)", "every state-changing I/O point of a generated run is a crash point: stop before / after / torn at up to 5 offsets, under process-death and (with synchronous logging) power-loss images; the reopened state must equal a prefix state within [acknowledged, issued]; plus sampled multi-crash cycles and clean close",
         "enumeration is complete per generated programme (all I/O points), programmes are sampled; POWER-DATA model treats directory operations as durable and exempts MANIFEST"),
 "C03": ("fault_enumeration", "4 (C03)", "C02's crash-point enumeration on transaction-heavy programmes (a transaction is one step of the prefix oracle), concurrent visibility of commits under dense scheduling, and sequential no-trace semantics (rollback, oversized entry, injected write/fsync error at commit, abandoned transaction, caller reusing buffers)",
         "as C02; runs in which an injected I/O error is consumed by background maintenance instead of the commit are abandoned (counted in probes)"),
}
def check(pid):
    level, ref, text, note = CHECKS[pid]
    return {
        "property_id": pid,
        "quick_cmd": "python3 run.py %s quick" % pid,
        "thorough_cmd": "python3 run.py %s thorough" % pid,
        "evidence_file": "/verif/evidence/%s.json" % pid,
        "replay_cmd_template": "python3 run.py replay {path}",
        "engine": "kevosim",
        "level_claimed": {"category": level, "text": text, "design_ref": "DESIGN.md section " + ref},
        "level_note": note,
        "technique": TECH,
    }
props = [json.loads(l)["id"] for l in open(os.path.join(V, "properties.jsonl"))]
NA_REASON = "check not yet built in this round (under construction; see DESIGN.md section 10) - not a judgement that the technique cannot apply"
m = {
 "version": 1,
 "setup_cmd": "python3 run.py setup",
 "hooks": {
   "guard": "verif",
   "enable": "no hooks are committed to /repo: every check copies /repo's working tree to a scratch directory, instruments it by source rewriting (tools/simrewrite) and builds it with -tags verif and a runtime overlay (go1.26.8)",
   "baseline_off_cmd": "cd /repo && GOPROXY=off GOFLAGS=-mod=mod go test -json -vet=off -count=1 -timeout 25m ./...",
   "source_commits": [],
   "add_only": True,
 },
 "engines": [{"name": "kevosim", "path": "/verif/sim", "serves_properties": sorted(CHECKS), "kind_free_text": "deterministic whole-system simulator for kevo: simrt (baton scheduler in testing/synctest), simsync/simatomic (scheduling points at every lock/atomic), simos (crashable fault-injecting disk), simnet (stream transport), kit (models, driver, minimiser)"}],
 "checks": [check(p) for p in props if p in CHECKS],
 "not_applicable": [{"property_id": p, "reason": NA_REASON} for p in props if p not in CHECKS],
 "notes": "Exit codes of every command: 0 held (KNOWN-FINDING lines possible), 1 VIOLATION, 2 infrastructure trouble, 3 replay diverged. VERIF_SEED selects the batch seed; VERIF_BUDGET_S overrides the wall budget per check.",
}
json.dump(m, open(os.path.join(V, "MANIFEST.json"), "w"), indent=1)
print("MANIFEST.json written:", len(m["checks"]), "checks,", len(m["not_applicable"]), "not yet claimed")
