#!/usr/bin/env python3
"""Writes MANIFEST.json from the table below (kept in one place so it stays valid)."""
import json, os
V = os.path.dirname(os.path.dirname(os.path.abspath(__file__)))
TECH = "deterministic simulation with fault injection (seeded baton scheduler in a synctest bubble, in-memory crashable disk, simulated stream transport), reference-model oracles"
CHECKS = {
 "C01": ("exploration", "4 (C01)", "seeded single-client programmes over the embedded API with the engine's background flush/compaction tasks scheduled by the simulator; every get, and a full scan + point gets at every reopen and at the end, compared byte-exactly with a reference map",
         "samples programmes/knobs/schedules; no injected faults; write errors that kevo itself reports count as no-effect"),
 "C02": ("fault_enumeration", "4 (C02)", "every state-changing I/O point of a generated run is a crash point: stop before / after / torn at up to 5 offsets, under process-death and (with synchronous logging) power-loss images; the reopened state must equal a prefix state within [acknowledged, issued]; plus sampled multi-crash cycles and clean close",
         "enumeration is complete per generated programme (all I/O points), programmes are sampled; POWER-DATA model treats directory operations as durable and exempts MANIFEST"),
 "C04": ("exploration", "4 (C04)", "2-6 client tasks run read-only and read-write transactions (gets, scans, puts, deletes, commit or rollback) on 4 keys under conc/dense seeded scheduling; one porcupine operation per transaction against a serial map model (reads replayed against state plus own writes, write set applied if committed)",
         "histories of at most 15 transactions; porcupine time-outs are counted inconclusive; writes outside transactions are excluded as the property excludes them"),
 "C06": ("exploration", "4 (C06)", "2-8 client tasks put (unique values), get and delete on 1-4 keys while flush, log rotation and compaction run under the seeded scheduler with injected stalls; invoke/return stamped with a global event counter; final reads, also after a restart, appended; porcupine checks one register per key; a failed write has no effect in the model",
         "at most ~55 operations per key; porcupine time-outs are counted inconclusive, never reported"),
 "C13": ("exploration", "4 (C13)", "primary and 1-2 replica engines with the real replication Primary/Replica/EngineApplier over a simulated, adversarial gRPC transport (whole stream messages dropped, duplicated, swapped; unary calls failing before/after the handler; resets, partitions, stalled readers); a recorder around the replica's applier checks after EVERY applied entry that the entry is a write of the primary step with its sequence number, that the replay of all applied entries is an entry-level prefix state of the primary's history, and that GetLastAppliedSequence() never decreased nor exceeded what was applied in full (also sampled every 37 ms); final engine scan equals the recorder's replay",
         "stubs: gRPC/HTTP2/TCP (simnet); replication.Manager runs for real through three seams substituted in the scratch copy (default connector, net.Listen, applier wrapper) and is mirrored only if an anchor is gone; single writer on a fresh primary so that step i carries sequence i; replicas are not restarted here (a restart replays from sequence 1 by design); where several prefixes fit a state the oracle credits the longest"),
 "C14": ("exploration", "4 (C14)", "the same cluster with 1-3 replicas: scripts interleave the primary's workload (puts, deletes, batches, multi-key transactions, flushes = log rotations, pauses) with replica joins before/during/after the writes, orderly restarts, process kills, connection resets, partitions and stalled readers; then all faults stop and every replica must scan equal to the reference model's final state within 120 unstalled virtual seconds, and still 5 s later",
         "bounded liveness on the simulator's clock (scheduler-injected stalls excluded); a restarted replica counts as arrived only once its new incarnation has applied the log to the primary's end (it replays from sequence 1); a primary write that gives up on a log rotation (stall-induced, unrelated to replication) abandons the run as inconclusive"),
 "C15": ("exploration", "4 (C15)", "primary with 0-2 healthy replicas and 1-3 scripted misbehaving peers of the replication service (never reads, reads slowly, never acknowledges, nonsense Ack/Nack, Ack/Nack while not reading, vanishes, opens streams in a row) with flow-control windows of 64-256 KB, while 1-3 clients write up to 16 KB values: every primary operation must succeed within 5 virtual seconds, vanished and window-blocked peers must leave Primary.GetReplicaInfo within heartbeat timeout + 2 intervals + 5 s, healthy replicas must still converge",
         "every fourth worker runs a -race binary and reports unsynchronised pairs of accesses whose both sides are kevo code (harness-internal reports are filtered; a report is a may-event as in C07); no scheduler-injected stalls in this check (a parked primary thread defeats kevo's 3 x 10 ms wait for a log rotation with or without replicas); flow control is modelled per stream at gRPC's minimum window or above, never tighter than real gRPC"),
 "C16": ("exploration", "4 (C16)", "a replica engine (read-only flag set, real EngineApplier fed by an applier task) while client tasks call methods taken at run time from the method sets of *engine.EngineFacade and the service server with arguments synthesised from parameter types; the full-scan fingerprint must equal the model of replicated operations after every client call (alternating phases) or at the end (concurrent, exploring the applier's read-only window); calls classified mutating must return a read-only error; GetNodeInfo must be truthful",
         "bypass methods (*Internal), Close, SetReadOnly and GetWAL are excluded as non-client entry points; the replication manager is constructed but not started (no sockets), the flag is set as startReplica sets it"),
 "C19": ("exploration", "4 (C19)", "request programmes over every service method, with transactions interleaved by handle, boundary-size keys/values/batches and finished or unknown handles; handlers called in-process with requests and responses passed through proto.Marshal/Unmarshal; every response compared with the reference map that judges the embedded API; rejected requests must leave data and open handles untouched",
         "stub: gRPC transport (no HTTP/2, no sockets); programmes are generated so that no request waits for the database lock of an open handle (blocking begins are C17's subject)"),
 "C20": ("fault_enumeration", "4 (C20)", "manifest life cycle on the simulated disk: process death before/after every I/O point of its creation followed by reopen, N reopens of a database with data, every truncation offset and 60 sampled byte corruptions of the stored manifest over existing data (opening must fail when the content is unreadable or invalid); invalid generated configurations must be rejected with the disk image byte-identical",
         "the field-by-field validity boundaries are a pure function exercised by plain input generation; 'documented constraint' is read as the conditions of Config.Validate; corruptions that leave a valid manifest get no verdict"),
 "C17": ("exploration", "4 (C17)", "client tasks begin/operate/commit/rollback/finish twice/use after finish/abandon on the engine and through the registry by handle; registry sweeps, idle and lifetime expiry, connection clean-up, graceful shutdown and the 10 s begin time-out run on virtual time with think times that make begins time out; later finishes must return the closed error without side effect and, once all clients are done, a fresh read-write transaction must begin within a bounded (unstalled) virtual time",
         "liveness bound: 90 s + idle limit of virtual time not counting injected stalls (15 s after a graceful shutdown); a client never asks for a second transaction while it holds one"),
 "C05": ("exploration", "4 (C05)", "programmes that spread versions and deletion markers over active/immutable memtables and SSTables (log files retired so that after a reopen the tables are the only copy) with scan probes on the engine and inside transactions: full/range/prefix/suffix/limit scans, Seek and SeekToLast (also inside range iterators) against the sorted reference map; plus a scanner task against concurrent writers of other keys with flush/compaction",
         "probe targets are sampled; concurrent non-transactional scans are judged only on ordering, duplicates, untouched keys and fabricated values"),
 "C12": ("exploration", "4 (C12)", "programmes with settle points (everything flushed, log files retired) followed by triggered, range and automatic compactions, reopens and compactions in which the process is killed at a chosen I/O point; the newest-wins merged view of the table files (read by harness-side sstable readers) and the engine's reads live and after reopen are compared with the reference map; every table must be sorted and duplicate-free",
         "the merged-view order (level 0 newest file first, then deeper levels, newer file first inside a level) is the harness's reading of the LSM layout; crash points inside compactions are sampled (1-40 I/O points in), not enumerated"),
 "C07": ("exploration", "4 (C07)", "client tasks call every public entry point of an open engine while background maintenance runs, in a -race build in which baton hand-offs are hidden from ThreadSanitizer (RaceDisable, //go:norace simulator, map-free and copy-free shared simulator state): an unsynchronised pair of kevo accesses is reported although the tasks ran one after the other; panics, simulator-level deadlock and calls that do not return within 120 unstalled virtual seconds are violations too",
         "ThreadSanitizer's bounded shadow history makes a report a may-event: race findings are not re-confirmed for determinism and their replays retry up to 8 executions; Close concurrent with calls is out of scope as in the property"),
 "C18": ("exploration", "4 (C18)", "memtable.MemTablePool/MemTable driven directly: one writer task with arbitrary sequence numbers and table switches against reader tasks (pool lookups, iterations, seeks, repeated iteration of an immutable table) with a scheduling point at every atomic operation of the skip list; observations must be sorted, finite, complete with respect to inserts that returned before they began and free of uninserted entries; sequentially the highest sequence wins per key",
         "ties between different entries with the same highest sequence number are not judged; pool-level lookups assume sequence numbers grow across table switches as in the engine"),
 "C08": ("exploration", "4 (C08)", "single-writer programmes with explicit and automatic log rotations, clean restarts and process crashes; after every acknowledged write the reported last sequence must exceed every earlier surviving write's, and the stored log entries (file order, wal.ReplayWALDir) must form strictly increasing sequence groups at every open and at the end",
         "crashes here stop the process between I/O points only (C02 enumerates the points); the replication protocol's view of the sequence is checked under C13/C14"),
 "C09": ("exploration", "4 (C09)", "generated entry sequences (lengths around 0, 1, the 32KB record limit, multi-fragment keys and values, batches beyond the 64KB buffer) through the real wal package on the simulated disk with short reads, rotation and reopen; ReplayWALDir and GetEntriesFrom(s) compared with a single-copy log",
         "mostly generated input through an I/O surface; the simulated parts are short reads, rotation and reopen; crash and damage are C02/C10"),
 "C10": ("fault_enumeration", "4 (C10)", "stored-image damage enumerated per generated log: every truncation offset of the newest log file (all bytes for small files, else every record boundary +-8 and 64 random offsets) and single-byte corruption of all header bytes of every record plus sampled payload bytes x 4 value classes; each image is recovered by the real engine and judged against the undamaged-prefix state; a sample continues with further acknowledged writes and a second (clean or crash) recovery",
         "corruption is applied to the newest log file only; the harness parses the record framing (7-byte header) to place the damage"),
 "C11": ("fault_enumeration", "4 (C11)", "generated ascending entry sets written by sstable.Writer to the simulated disk and read back by OpenReader: iteration, Seek targets of 7 kinds followed by Next, SeekToLast, point lookups; repeated under injected read errors and under single-byte corruption of the stored file (sampled positions incl. footer/index; all positions for small files in the thorough tier)",
         "seek targets and lookups are sampled (about 40 each per table); corruption positions are sampled in the quick tier"),
 "C03": ("fault_enumeration", "4 (C03)", "C02's crash-point enumeration on transaction-heavy programmes (a transaction is one step of the prefix oracle), concurrent visibility of commits under dense scheduling, and sequential no-trace semantics (rollback, oversized entry, injected write/fsync error at commit, abandoned transaction, caller reusing buffers)",
         "as C02; runs in which an injected I/O error is consumed by background maintenance instead of the commit are abandoned (counted in probes)"),
}
def check(pid):
    level, ref, text, note = CHECKS[pid]
    return {
        "property_id": pid,
        "quick_cmd": "python3 run.py %s quick" % pid,
        "thorough_cmd": "python3 run.py %s thorough" % pid,
        "evidence_file": "/verif/evidence/%s.json" % pid,
        "replay_cmd_template": "python3 run.py replay {path}",
        "engine": "kevosim",
        "level_claimed": {"category": level, "text": text, "design_ref": "DESIGN.md section " + ref},
        "level_note": note,
        "technique": TECH,
    }
props = [json.loads(l)["id"] for l in open(os.path.join(V, "properties.jsonl"))]
NA_REASON = "check not yet built in this round (under construction; see DESIGN.md section 10) - not a judgement that the technique cannot apply"
m = {
 "version": 1,
 "setup_cmd": "python3 run.py setup",
 "hooks": {
   "guard": "verif",
   "enable": "no hooks are committed to /repo: every check copies /repo's working tree to a scratch directory, instruments it by source rewriting (tools/simrewrite) and builds it with -tags verif and a runtime overlay (go1.26.8)",
   "baseline_off_cmd": "cd /repo && GOPROXY=off GOFLAGS=-mod=mod go test -json -vet=off -count=1 -timeout 25m ./...",
   "source_commits": [],
   "add_only": True,
 },
 "engines": [{"name": "kevosim", "path": "/verif/sim", "serves_properties": sorted(CHECKS), "kind_free_text": "deterministic whole-system simulator for kevo: simrt (baton scheduler in testing/synctest), simsync/simatomic (scheduling points at every lock/atomic), simos (crashable fault-injecting disk), simnet (stream transport), kit (models, driver, minimiser)"}],
 "checks": [check(p) for p in props if p in CHECKS],
 "not_applicable": [{"property_id": p, "reason": NA_REASON} for p in props if p not in CHECKS],
 "notes": "Exit codes of every command: 0 held (KNOWN-FINDING lines possible), 1 VIOLATION, 2 infrastructure trouble, 3 replay diverged. VERIF_SEED selects the batch seed; VERIF_BUDGET_S overrides the wall budget per check.",
}
json.dump(m, open(os.path.join(V, "MANIFEST.json"), "w"), indent=1)
print("MANIFEST.json written:", len(m["checks"]), "checks,", len(m["not_applicable"]), "not yet claimed")
