// simrewrite instruments a scratch copy of kevo for kevosim.
//
// It is purely syntactic and edits the source text at AST positions, so line
// numbers and comments are preserved:
//   - import substitution keeping the local name: os, path/filepath, sync, sync/atomic
//   - `go CALL`                -> block with temporaries + simrt.Go(func(){...})
//   - statements with <-ch / ch<- : simrt.Yield(simrt.CChan) before, simrt.Reacquire() after
//   - select                   -> Yield before, Reacquire first in every clause
//   - time.Sleep/Now/Since/Until -> simrt.Sleep/TimeNow/TimeSince/TimeUntil
//
// Anything it cannot handle safely makes it exit 2.
package main

import (
	"bytes"
	"fmt"
	"go/ast"
	"go/parser"
	"go/token"
	"os"
	"path/filepath"
	"sort"
	"strconv"
	"strings"
)

const simBase = "github.com/KevoDB/kevo/zsim/"

type edit struct {
	start, end int // byte offsets; start==end is an insertion
	text       string
	order      int
}

type rewriter struct {
	fset  *token.FileSet
	src   []byte
	file  *ast.File
	path  string
	edits []edit
	quiet bool // pkg/stats: quiet sync/atomic variants
	used  bool // simrt referenced
	nedit int
	stats map[string]int
}

func die(format string, args ...any) {
	fmt.Fprintf(os.Stderr, "simrewrite: "+format+"\n", args...)
	os.Exit(2)
}

func (r *rewriter) off(p token.Pos) int { return r.fset.Position(p).Offset }

func (r *rewriter) add(start, end int, text string) {
	r.nedit++
	r.edits = append(r.edits, edit{start, end, text, r.nedit})
}

func (r *rewriter) insert(at int, text string) { r.add(at, at, text) }

func (r *rewriter) text(n ast.Node) string { return string(r.src[r.off(n.Pos()):r.off(n.End())]) }

func (r *rewriter) where(n ast.Node) string {
	p := r.fset.Position(n.Pos())
	return fmt.Sprintf("%s:%d", r.path, p.Line)
}

func containsChanOp(n ast.Node) bool {
	if n == nil {
		return false
	}
	found := false
	ast.Inspect(n, func(x ast.Node) bool {
		if found {
			return false
		}
		switch v := x.(type) {
		case *ast.FuncLit:
			return false
		case *ast.UnaryExpr:
			if v.Op == token.ARROW {
				found = true
			}
		case *ast.SendStmt:
			found = true
		}
		return true
	})
	return found
}

func (r *rewriter) imports() {
	subst := map[string][2]string{
		"os":            {"os", "simos"},
		"path/filepath": {"filepath", "simfp"},
		"sync":          {"sync", "simsync"},
		"sync/atomic":   {"atomic", "simatomic"},
		"math/rand":     {"rand", "simrand"},
	}
	for _, imp := range r.file.Imports {
		p, _ := strconv.Unquote(imp.Path.Value)
		s, ok := subst[p]
		if !ok {
			continue
		}
		target := s[1]
		if r.quiet && (target == "simsync" || target == "simatomic") {
			target += "q"
		}
		repl := strconv.Quote(simBase + target)
		if imp.Name == nil {
			repl = s[0] + " " + repl
		}
		r.add(r.off(imp.Path.Pos()), r.off(imp.Path.End()), repl)
		r.stats["import:"+p]++
	}
}

func (r *rewriter) stmtList(list []ast.Stmt) {
	for _, s := range list {
		r.stmt(s)
	}
}

func (r *rewriter) stmt(s ast.Stmt) {
	outer := s
	for {
		if l, ok := s.(*ast.LabeledStmt); ok {
			s = l.Stmt
			continue
		}
		break
	}
	pre := r.off(outer.Pos())
	switch v := s.(type) {
	case *ast.GoStmt:
		r.goStmt(v)
	case *ast.SelectStmt:
		r.used = true
		r.insert(pre, "simrt.Yield(simrt.CChan); ")
		for _, c := range v.Body.List {
			cc := c.(*ast.CommClause)
			r.insert(r.off(cc.Colon)+1, " simrt.Reacquire();")
		}
		r.stats["select"]++
	case *ast.ExprStmt, *ast.AssignStmt, *ast.SendStmt, *ast.DeclStmt, *ast.IncDecStmt:
		if containsChanOp(s) {
			r.used = true
			r.insert(pre, "simrt.Yield(simrt.CChan); ")
			r.insert(r.off(s.End()), "; simrt.Reacquire()")
			r.stats["chanop"]++
		}
	case *ast.ReturnStmt:
		if containsChanOp(s) {
			die("%s: channel operation in return statement is not supported", r.where(s))
		}
	case *ast.IfStmt:
		if containsChanOp(v.Cond) {
			die("%s: channel operation in if condition is not supported", r.where(s))
		}
		if containsChanOp(v.Init) {
			// if INIT; COND {..} else {..}  ->  { Yield; INIT; Reacquire; if COND {..} else {..} }
			// (same scope for the variables INIT declares; an if is no break/continue target)
			r.hoistInit(outer, v.If, v.Init, v.Cond.Pos(), "if")
		}
	case *ast.ForStmt:
		if containsChanOp(v.Init) || containsChanOp(v.Cond) || containsChanOp(v.Post) {
			die("%s: channel operation in for header is not supported", r.where(s))
		}
	case *ast.SwitchStmt:
		if containsChanOp(v.Tag) {
			die("%s: channel operation in switch tag is not supported", r.where(s))
		}
		if containsChanOp(v.Init) {
			if outer != s {
				die("%s: channel operation in the init of a labeled switch is not supported", r.where(s))
			}
			next := v.Body.Lbrace
			if v.Tag != nil {
				next = v.Tag.Pos()
			}
			r.hoistInit(outer, v.Switch, v.Init, next, "switch")
		}
	case *ast.RangeStmt:
		if containsChanOp(v.X) {
			die("%s: channel operation in range expression is not supported", r.where(s))
		}
		// A range over a channel cannot be recognised syntactically; the body
		// gets a leading Reacquire (a no-op unless the task blocked) and one
		// follows the loop.
		r.used = true
		r.insert(r.off(v.Body.Lbrace)+1, " simrt.Reacquire();")
		r.insert(r.off(outer.End()), "; simrt.Reacquire()")
	case *ast.DeferStmt:
		for _, a := range v.Call.Args {
			if containsChanOp(a) {
				die("%s: channel operation in defer arguments is not supported", r.where(s))
			}
		}
	}
}

// hoistInit moves the init statement of an if/switch in front of it, inside a
// new block, with scheduling points around it.
func (r *rewriter) hoistInit(stmt ast.Stmt, kw token.Pos, init ast.Stmt, next token.Pos, word string) {
	r.used = true
	r.stats["hoisted-init"]++
	initText := r.text(init)
	// "if INIT; COND"  ->  "{ Yield; INIT; Reacquire(); if COND"
	r.add(r.off(kw), r.off(next), "{ simrt.Yield(simrt.CChan); "+initText+"; simrt.Reacquire(); "+word+" ")
	r.insert(r.off(stmt.End()), " }")
}

func simpleArg(e ast.Expr) bool {
	switch v := e.(type) {
	case *ast.BasicLit:
		return true
	case *ast.Ident:
		return v.Name == "nil" || v.Name == "true" || v.Name == "false"
	}
	return false
}

func (r *rewriter) goStmt(g *ast.GoStmt) {
	r.used = true
	r.stats["go"]++
	call := g.Call
	for _, a := range call.Args {
		if containsChanOp(a) {
			die("%s: channel operation in go arguments is not supported", r.where(g))
		}
	}
	gpos := r.off(g.Pos())
	fpos := r.off(call.Fun.Pos())
	if lit, ok := call.Fun.(*ast.FuncLit); ok {
		if len(call.Args) == 0 {
			// go func(){...}()  ->  simrt.Go(func(){...})
			r.add(gpos, fpos, "simrt.Go(")
			r.add(r.off(lit.End()), r.off(call.End()), ")")
			return
		}
		// go func(a T){...}(x)  ->  { _ga0 := x; simrt.Go(func() { func(a T){...}(_ga0) }) }
		var pre strings.Builder
		pre.WriteString("{ ")
		for i, a := range call.Args {
			if simpleArg(a) {
				continue
			}
			fmt.Fprintf(&pre, "_ga%d := %s; ", i, r.text(a))
			r.add(r.off(a.Pos()), r.off(a.End()), fmt.Sprintf("_ga%d", i))
		}
		pre.WriteString("simrt.Go(func() { ")
		r.add(gpos, fpos, pre.String())
		r.insert(r.off(call.End()), " }) }")
		return
	}
	// go f(x, y)  ->  { _gf := f; _ga0 := x; _ga1 := y; simrt.Go(func() { _gf(_ga0, _ga1) }) }
	var post strings.Builder
	var argl []string
	for i, a := range call.Args {
		if simpleArg(a) {
			argl = append(argl, r.text(a))
			continue
		}
		fmt.Fprintf(&post, "; _ga%d := %s", i, r.text(a))
		argl = append(argl, fmt.Sprintf("_ga%d", i))
	}
	ell := ""
	if call.Ellipsis.IsValid() {
		ell = "..."
	}
	fmt.Fprintf(&post, "; simrt.Go(func() { _gf(%s%s) }) }", strings.Join(argl, ", "), ell)
	r.add(gpos, fpos, "{ _gf := ")
	r.add(r.off(call.Fun.End()), r.off(call.End()), post.String())
}

func (r *rewriter) walk() {
	usesTime := false
	sleepRewritten := false
	fmtRewritten := false
	for _, imp := range r.file.Imports {
		if imp.Path.Value == `"time"` && imp.Name == nil {
			usesTime = true
		}
	}
	ast.Inspect(r.file, func(n ast.Node) bool {
		switch v := n.(type) {
		case *ast.BlockStmt:
			r.stmtList(v.List)
		case *ast.CaseClause:
			r.stmtList(v.Body)
		case *ast.CommClause:
			r.stmtList(v.Body)
		case *ast.IfStmt:
			// an "else if" is not an element of a statement list
			if e, ok := v.Else.(*ast.IfStmt); ok {
				r.stmt(e)
			}
		case *ast.LabeledStmt:
			// covered through the statement list of the enclosing block
		case *ast.SelectorExpr:
			if id, ok := v.X.(*ast.Ident); ok && id.Name == "fmt" && id.Obj == nil && strings.HasPrefix(r.path, "pkg/replication/") && (v.Sel.Name == "Printf" || v.Sel.Name == "Println") {
				// debugging output on every replicated entry: discarded (kept in the verbose trace)
				r.add(r.off(v.Pos()), r.off(v.End()), "simrt."+v.Sel.Name)
				r.used = true
				fmtRewritten = true
				r.stats["fmt."+v.Sel.Name]++
			}
			if id, ok := v.X.(*ast.Ident); ok && usesTime && id.Name == "time" && id.Obj == nil {
				repl := map[string]string{"Sleep": "simrt.Sleep", "Now": "simrt.TimeNow", "Since": "simrt.TimeSince", "Until": "simrt.TimeUntil"}[v.Sel.Name]
				if repl != "" {
					r.add(r.off(v.Pos()), r.off(v.End()), repl)
					r.used = true
					sleepRewritten = true
					r.stats["time."+v.Sel.Name]++
				}
			}
		}
		return true
	})
	if sleepRewritten {
		r.insert(len(r.src), "\nvar _ = time.Second\n")
	}
	if fmtRewritten {
		r.insert(len(r.src), "\nvar _ = fmt.Sprint\n")
	}
}

func (r *rewriter) apply() []byte {
	if r.used {
		// same line as the package clause: line numbers stay intact
		r.insert(r.off(r.file.Name.End()), "; import simrt "+strconv.Quote(simBase+"simrt"))
	}
	sort.SliceStable(r.edits, func(i, j int) bool {
		if r.edits[i].start != r.edits[j].start {
			return r.edits[i].start < r.edits[j].start
		}
		return r.edits[i].order < r.edits[j].order
	})
	var out bytes.Buffer
	pos := 0
	for _, e := range r.edits {
		if e.start < pos {
			die("%s: overlapping edits at offset %d (%q)", r.path, e.start, e.text)
		}
		out.Write(r.src[pos:e.start])
		out.WriteString(e.text)
		pos = e.end
	}
	out.Write(r.src[pos:])
	return out.Bytes()
}

func skipDir(rel string) bool {
	for _, p := range []string{"pkg/client", "pkg/transport", "pkg/grpc/transport", "pkg/common/log", "zsim"} {
		if rel == p || strings.HasPrefix(rel, p+"/") {
			return true
		}
	}
	return false
}

type seam struct{ file, old, new string }

func applySeams(root string, stats map[string]int) bool {
	seams := []seam{
		{"pkg/replication/replica.go", "connector:      &DefaultPrimaryConnector{},", "connector:      verifConnector(),"},
		{"pkg/replication/manager.go", "return net.Listen(\"tcp\", address)", "return verifListen(address)"},
		{"pkg/replication/manager.go", "NewReplica(lastApplied, m.walApplier, replicaConfig)", "NewReplica(lastApplied, verifWrapApplier(m.config.ListenAddr, m.walApplier), replicaConfig)"},
	}
	content := map[string]string{}
	for _, sm := range seams {
		if _, ok := content[sm.file]; !ok {
			b, err := os.ReadFile(filepath.Join(root, sm.file))
			if err != nil {
				return false
			}
			content[sm.file] = string(b)
		}
		if strings.Count(content[sm.file], sm.old) != 1 {
			fmt.Fprintf(os.Stderr, "simrewrite: seam anchor not found exactly once in %s: %q - manager seams not applied\n", sm.file, sm.old)
			return false
		}
		content[sm.file] = strings.Replace(content[sm.file], sm.old, sm.new, 1)
	}
	for f, c := range content {
		if err := os.WriteFile(filepath.Join(root, f), []byte(c), 0644); err != nil {
			die("%v", err)
		}
	}
	stats["manager-seams"] = len(seams)
	return true
}

func main() {
	if len(os.Args) < 2 {
		die("usage: simrewrite <scratch-module-root>")
	}
	root := os.Args[1]
	total := map[string]int{}
	files := 0
	err := filepath.Walk(filepath.Join(root, "pkg"), func(p string, info os.FileInfo, err error) error {
		if err != nil {
			return err
		}
		rel, _ := filepath.Rel(root, p)
		if info.IsDir() {
			if skipDir(rel) {
				return filepath.SkipDir
			}
			return nil
		}
		if !strings.HasSuffix(p, ".go") || strings.HasSuffix(p, "_test.go") || strings.HasSuffix(p, ".pb.go") {
			return nil
		}
		src, err := os.ReadFile(p)
		if err != nil {
			return err
		}
		fset := token.NewFileSet()
		f, err := parser.ParseFile(fset, p, src, parser.ParseComments)
		if err != nil {
			die("parse %s: %v", p, err)
		}
		r := &rewriter{fset: fset, src: src, file: f, path: rel, stats: total}
		r.quiet = strings.HasPrefix(rel, "pkg/stats/")
		r.imports()
		r.walk()
		if len(r.edits) == 0 {
			return nil
		}
		out := r.apply()
		// must still parse
		if _, err := parser.ParseFile(token.NewFileSet(), p, out, 0); err != nil {
			die("rewritten %s does not parse: %v", rel, err)
		}
		files++
		return os.WriteFile(p, out, 0644)
	})
	if err != nil {
		die("%v", err)
	}
	// Seams for running replication.Manager itself on the simulated transport:
	// three one-line substitutions in pkg/replication. If any anchor is gone
	// (the code was changed) none is applied and the harness falls back to
	// mirroring the manager's start-up.
	hooked := applySeams(root, total)
	hk := "false"
	if hooked {
		hk = "true"
	}
	if err := os.WriteFile(filepath.Join(root, "pkg/replication/zz_verif_hooked.go"),
		[]byte("//go:build verif\n\npackage replication\n\n// VerifHooked reports whether the manager seams were applied to this copy.\nconst VerifHooked = "+hk+"\n"), 0644); err != nil {
		die("%v", err)
	}
	keys := make([]string, 0, len(total))
	for k := range total {
		keys = append(keys, k)
	}
	sort.Strings(keys)
	var b strings.Builder
	for _, k := range keys {
		fmt.Fprintf(&b, " %s=%d", k, total[k])
	}
	fmt.Printf("simrewrite: %d files rewritten;%s\n", files, b.String())
}
