#!/bin/bash
# Runs every claimed check's quick (or $1) tier in sequence; prints one line per check.
cd /verif && source env.sh
tier=${1:-quick}
for p in $(python3 -c "import json;print(' '.join(c['property_id'] for c in json.load(open('MANIFEST.json'))['checks']))"); do
  out=$(python3 run.py $p $tier 2>&1); rc=$?
  echo "$p rc=$rc $(echo "$out" | grep -a "^$p $tier" | cut -c1-160)"
  if [ $rc -ne 0 ]; then echo "$out" | grep -a "VIOLATION\|INFRA\|NONDET\|signature\|detail" | cut -c1-400 | head -12; fi
done
