#!/usr/bin/env python3
"""Rewrites DESIGN.md section 0.5 (between the markers) from seeded/*/meta.json."""
import glob, json, os, re
V = os.path.dirname(os.path.dirname(os.path.abspath(__file__)))
rows = []
for d in sorted(glob.glob(os.path.join(V, "seeded", "*"))):
    m = json.load(open(os.path.join(d, "meta.json")))
    name = os.path.basename(d)
    title = (m.get("title") or m.get("what_breaks") or "").replace("|", "/").replace("\n", " ")
    if len(title) > 150:
        title = title[:147] + "..."
    files = ", ".join(os.path.basename(f) for f in (m.get("files") or []))
    rows.append("| %s | %s (%s) | %s | %s |" % (name, title, files, m.get("checks_run", ""), (m.get("outcome", "") + ((": " + m["note"]) if m.get("note") else "")).replace("|", "/").replace("\n", " ")))
n = len(rows)
caught = sum(1 for r in rows if "| caught" in r)
found = sum(1 for r in rows if "| found-defect" in r)
text = ("<!-- CATCH-TABLE-BEGIN -->\n"
        "%d deliberate breakages, each written by a fresh sub-agent that saw only the property text and a scratch worktree, each\n"
        "confirmed (its demonstration fails on the changed tree and passes on the unchanged one) and run against the checks with\n"
        "`tools/try_mutant.py` (quick tier, 40-60 s): %d caught, %d not caught, %d whose scenario exposed the same hole in the\n"
        "unchanged tree (repaired there; the change is harmless afterwards).\n\n"
        "| change | what it does (file) | checks run | outcome |\n|---|---|---|---|\n%s\n"
        "<!-- CATCH-TABLE-END -->") % (n, caught, n - caught - found, found, "\n".join(rows))
p = os.path.join(V, "DESIGN.md")
s = open(p).read()
if "<!-- CATCH-TABLE-BEGIN -->" in s:
    s = re.sub(r"<!-- CATCH-TABLE-BEGIN -->.*?<!-- CATCH-TABLE-END -->", lambda _: text, s, flags=re.S)
else:
    raise SystemExit("markers missing in DESIGN.md")
open(p, "w").write(s)
print(n, "rows;", caught, "caught")
