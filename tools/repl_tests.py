#!/usr/bin/env python3
"""Run kevo's pkg/replication tests that are in BASELINE.json's stable_pass set
(the package as a whole hangs at the pinned commit already) and report any that
no longer pass."""
import json, os, re, subprocess, sys
b = json.load(open('/root/.vp/BASELINE.json'))
want = sorted(t.split('::')[1] for t in b['stable_pass'] if t.startswith('github.com/KevoDB/kevo/pkg/replication::'))
tops = sorted({t.split('/')[0] for t in want})
env = dict(os.environ, GOFLAGS='-mod=mod', GOPROXY='off')
env.pop('GOTOOLCHAIN', None); env.pop('GOSUMDB', None)
cmd = ['go', 'test', '-count=1', '-json', '-timeout', '300s', '-run', '^(' + '|'.join(tops) + ')$', './pkg/replication/']
p = subprocess.run(cmd, cwd='/repo', env=env, capture_output=True, text=True)
res = {}
for line in p.stdout.splitlines():
    try:
        ev = json.loads(line)
    except Exception:
        continue
    if ev.get('Test') and ev.get('Action') in ('pass', 'fail', 'skip'):
        res[ev['Test']] = ev['Action']
bad = [t for t in want if res.get(t) != 'pass']
print('%d/%d stable replication tests pass' % (len(want) - len(bad), len(want)))
for t in bad:
    print('  NOT PASSING:', t, res.get(t))
if bad:
    sys.stderr.write(p.stdout[-3000:] + p.stderr[-3000:])
sys.exit(1 if bad else 0)
