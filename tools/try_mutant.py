#!/usr/bin/env python3
"""try_mutant.py <outdir-or-patch> <Cnn> [<Cnn>...]: runs the given checks (quick tier,
VERIF_BUDGET_S or 40 s) against a seeded change. The change is applied in a throw-away git
worktree of /repo under /tmp (KEVO_REPO points run.py at it; evidence and replays of these runs go
to a temporary directory), so /repo itself and concurrent runs are not disturbed - the effect is the
same as `git -C /repo apply` + run + `git -C /repo checkout -- .`.
Prints one line per check: CAUGHT (exit 1 with VIOLATION), MISSED (exit 0), or TROUBLE."""
import json, os, shutil, subprocess, sys, tempfile
src = sys.argv[1]
patch = src if src.endswith(".diff") else os.path.join(src, "patch.diff")
checks = sys.argv[2:]
wt = tempfile.mkdtemp(prefix="kevo-mutant.", dir="/tmp")
os.rmdir(wt)
def git(*a, cwd="/repo"):
    return subprocess.run(["git", "-C", cwd] + list(a), capture_output=True, text=True)
r = git("worktree", "add", "--detach", wt, "HEAD")
if r.returncode != 0:
    print("cannot create worktree:", r.stderr); sys.exit(2)
results = {}
tmp = tempfile.mkdtemp(prefix="kevo-mutant-out.", dir="/tmp")
try:
    r = git("apply", os.path.abspath(patch), cwd=wt)
    if r.returncode != 0:
        print("patch does not apply:", r.stderr); sys.exit(2)
    env = dict(os.environ, KEVO_REPO=wt, VERIF_EVIDENCEDIR=os.path.join(tmp, "evidence"), VERIF_REPLAYDIR=os.path.join(tmp, "replays"))
    env.setdefault("VERIF_BUDGET_S", "40")
    for c in checks:
        p = subprocess.run(["python3", "/verif/run.py", c, "quick"], cwd="/verif", env=env, capture_output=True, text=True)
        out = p.stdout + p.stderr
        sigs = [l.strip() for l in out.splitlines() if l.strip().startswith("signature:")]
        if p.returncode == 1 and "VIOLATION property=" in out:
            results[c] = "CAUGHT " + "; ".join(sigs[:4])
        elif p.returncode == 0:
            results[c] = "MISSED"
        else:
            results[c] = "TROUBLE rc=%d %s" % (p.returncode, out[-400:].replace("\n", " | "))
        print(os.path.basename(os.path.dirname(os.path.abspath(patch))), c, results[c][:300], flush=True)
finally:
    git("worktree", "remove", "--force", wt)
    shutil.rmtree(tmp, ignore_errors=True)
if not src.endswith(".diff"):
    json.dump(results, open(os.path.join(src, "check_results.json"), "w"), indent=1)
