#!/usr/bin/env python3
"""try_mutant.py <patch-or-outdir> <Cnn> [<Cnn>...]: applies a seeded change to /repo, runs the
given checks (quick tier, VERIF_BUDGET_S or 40 s), restores /repo. Prints one line per check:
CAUGHT (exit 1 with VIOLATION), MISSED (exit 0), or TROUBLE (other)."""
import json, os, subprocess, sys
src = sys.argv[1]
patch = src if src.endswith(".diff") else os.path.join(src, "patch.diff")
checks = sys.argv[2:]
def git(*a):
    return subprocess.run(["git", "-C", "/repo"] + list(a), capture_output=True, text=True)
st = git("status", "--porcelain").stdout.strip()
if st:
    print("/repo is not clean:", st); sys.exit(2)
r = git("apply", patch)
if r.returncode != 0:
    print("patch does not apply:", r.stderr); sys.exit(2)
results = {}
try:
    env = dict(os.environ)
    env.setdefault("VERIF_BUDGET_S", "40")
    for c in checks:
        p = subprocess.run(["python3", "/verif/run.py", c, "quick"], cwd="/verif", env=env, capture_output=True, text=True)
        out = p.stdout + p.stderr
        sigs = [l.strip() for l in out.splitlines() if l.strip().startswith("signature:")]
        if p.returncode == 1 and "VIOLATION property=" in out:
            results[c] = "CAUGHT " + "; ".join(sigs[:4])
        elif p.returncode == 0:
            results[c] = "MISSED"
        else:
            results[c] = "TROUBLE rc=%d %s" % (p.returncode, out[-400:].replace("\n", " | "))
        print(os.path.basename(os.path.dirname(patch)) or patch, c, results[c][:300], flush=True)
finally:
    git("checkout", "--", ".")
    git("clean", "-fdq", "pkg", "cmd", "proto")
    # evidence written during mutant runs must not be kept
    subprocess.run(["git", "-C", "/verif", "checkout", "--", "evidence"], capture_output=True)
if not src.endswith(".diff"):
    json.dump(results, open(os.path.join(src, "check_results.json"), "w"), indent=1)
